#!/bin/bash
# ./replay.sh <ID> <replay-or-violation-file>  — rebuilds from /repo's working tree, then replays one saved case.
# Exit: 0 held, 1 VIOLATION printed, 2 could not decide.
set -u
ID="${1:?property id}"; FILE="${2:?replay file}"
HERE="$(cd "$(dirname "$0")" && pwd)"
case "$FILE" in /*) ;; *) FILE="$PWD/$FILE";; esac
export VERIF_ROOT="$HERE"
export CARGO_NET_OFFLINE=true
cd "$HERE/harness" || exit 2
export LD_LIBRARY_PATH="$(rustc --print sysroot)/lib${LD_LIBRARY_PATH:+:$LD_LIBRARY_PATH}"
mkdir -p "$HERE/.build"
LOG="$HERE/.build/build-replay.log"
cargo build --release --target-dir "$HERE/.build/harness" >"$LOG" 2>&1 || { echo "harness build failed (see $LOG)" >&2; exit 2; }
(cd /repo && cargo build --bins --target-dir "$HERE/.build/repo" >>"$LOG" 2>&1) || { echo "/repo build failed (see $LOG)" >&2; exit 2; }
cd "$HERE" || exit 2
exec "$HERE/.build/harness/release/vp" replay "$ID" "$FILE"
