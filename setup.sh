#!/bin/bash
# Offline setup after a fresh restore: build the harness, the /repo binaries and (when present)
# the frozen reference worker into /verif/.build. Nothing is fetched.
set -u
HERE="$(cd "$(dirname "$0")" && pwd)"
export CARGO_NET_OFFLINE=true
mkdir -p "$HERE/.build"
cd "$HERE/harness" || exit 2
cargo build --release --target-dir "$HERE/.build/harness" || exit 2
(cd /repo && cargo build --bins --target-dir "$HERE/.build/repo") || exit 2
if [ -d "$HERE/frozen" ]; then
  (cd "$HERE/frozen" && cargo build --release --target-dir "$HERE/.build/frozen") || exit 2
fi
echo setup ok
