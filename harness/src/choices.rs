//! Choice-sequence decoder in the style of `arbitrary::Unstructured`.
//!
//! A case is a byte vector; every generator draws its decisions from it. An exhausted
//! sequence yields 0, and 0 always selects the simplest alternative, so deleting or zeroing
//! bytes (what proptest's shrinker and libFuzzer's minimiser do) simplifies the case.
//! Indices are mapped monotonically (`v * n >> 16`), never with `%`.

pub struct Choices<'a> {
    data: &'a [u8],
    pos: usize,
}

impl<'a> Choices<'a> {
    pub fn new(data: &'a [u8]) -> Self {
        Choices { data, pos: 0 }
    }

    pub fn exhausted(&self) -> bool {
        self.pos >= self.data.len()
    }

    pub fn used(&self) -> usize {
        self.pos.min(self.data.len())
    }

    pub fn byte(&mut self) -> u8 {
        let b = self.data.get(self.pos).copied().unwrap_or(0);
        self.pos += 1;
        b
    }

    fn u16(&mut self) -> u32 {
        let hi = self.byte() as u32;
        let lo = self.byte() as u32;
        (hi << 8) | lo
    }

    /// A value in `0..n` (0 if `n == 0`).
    pub fn below(&mut self, n: usize) -> usize {
        if n <= 1 {
            return 0;
        }
        if n <= 256 {
            return (self.byte() as usize * n) >> 8;
        }
        if n <= 65536 {
            return (self.u16() as usize * n) >> 16;
        }
        let v = ((self.u16() as u64) << 16) | self.u16() as u64;
        ((v * n as u64) >> 32) as usize
    }

    /// A value in `lo..=hi`.
    pub fn range(&mut self, lo: usize, hi: usize) -> usize {
        debug_assert!(lo <= hi);
        lo + self.below(hi - lo + 1)
    }

    pub fn flip(&mut self) -> bool {
        self.byte() >= 128
    }

    /// True with probability `num/den`; 0 bytes give `false`.
    pub fn chance(&mut self, num: usize, den: usize) -> bool {
        let v = self.below(den);
        v >= den - num.min(den)
    }

    pub fn pick<'b, T>(&mut self, xs: &'b [T]) -> &'b T {
        &xs[self.below(xs.len())]
    }

    /// Weighted choice: returns the index of the selected weight.
    pub fn weighted(&mut self, ws: &[usize]) -> usize {
        let total: usize = ws.iter().sum();
        let mut v = self.below(total);
        for (i, w) in ws.iter().enumerate() {
            if v < *w {
                return i;
            }
            v -= *w;
        }
        0
    }
}
