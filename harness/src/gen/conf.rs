//! G-CONF: configuration generator over all formatting options of `create_config!`.

use crate::choices::Choices;
use crate::fmt::Opts;

pub const BOOLS: &[(&str, bool)] = &[
    ("hard_tabs", false),
    ("wrap_comments", false),
    ("format_code_in_doc_comments", false),
    ("normalize_comments", false),
    ("normalize_doc_attributes", false),
    ("format_strings", false),
    ("format_macro_matchers", false),
    ("format_macro_bodies", true),
    ("empty_item_single_line", true),
    ("struct_lit_single_line", true),
    ("fn_single_line", false),
    ("where_single_line", false),
    ("reorder_imports", true),
    ("reorder_modules", true),
    ("reorder_impl_items", false),
    ("space_before_colon", false),
    ("space_after_colon", true),
    ("spaces_around_ranges", false),
    ("remove_nested_parens", true),
    ("combine_control_expr", true),
    ("overflow_delimited_expr", false),
    ("match_arm_blocks", true),
    ("match_arm_indent", true),
    ("force_multiline_blocks", false),
    ("trailing_semicolon", true),
    ("match_block_trailing_comma", false),
    ("merge_derives", true),
    ("use_try_shorthand", false),
    ("use_field_init_shorthand", false),
    ("force_explicit_abi", true),
    ("condense_wildcard_suffixes", false),
    ("error_on_line_overflow", false),
    ("error_on_unformatted", false),
];

pub const ENUMS: &[(&str, &[&str])] = &[
    ("newline_style", &["Auto", "Unix", "Windows", "Native"]),
    ("indent_style", &["Block", "Visual"]),
    ("use_small_heuristics", &["Default", "Off", "Max"]),
    ("hex_literal_case", &["Preserve", "Upper", "Lower"]),
    (
        "float_literal_trailing_zero",
        &["Preserve", "Always", "IfNoPostfix", "Never"],
    ),
    ("imports_indent", &["Block", "Visual"]),
    (
        "imports_layout",
        &[
            "Mixed",
            "Vertical",
            "Horizontal",
            "HorizontalVertical",
        ],
    ),
    (
        "imports_granularity",
        &["Preserve", "Crate", "Module", "Item", "One"],
    ),
    ("group_imports", &["Preserve", "StdExternalCrate", "One"]),
    ("type_punctuation_density", &["Wide", "Compressed"]),
    ("binop_separator", &["Front", "Back"]),
    ("match_arm_leading_pipes", &["Never", "Always", "Preserve"]),
    ("fn_params_layout", &["Tall", "Compressed", "Vertical"]),
    (
        "brace_style",
        &["SameLineWhere", "AlwaysNextLine", "PreferSameLine"],
    ),
    (
        "control_brace_style",
        &["AlwaysSameLine", "ClosingNextLine", "AlwaysNextLine"],
    ),
    ("trailing_comma", &["Vertical", "Always", "Never"]),
];

/// Width-like options (value range relative to max_width) and thresholds (absolute 0..=60).
pub const WIDTHS: &[&str] = &[
    "fn_call_width",
    "attr_fn_like_width",
    "struct_lit_width",
    "struct_variant_width",
    "array_width",
    "chain_width",
    "single_line_if_else_max_width",
    "single_line_let_else_max_width",
    "doc_comment_code_block_width",
    "comment_width",
];

pub const THRESHOLDS: &[&str] = &[
    "short_array_element_width_threshold",
    "struct_field_align_threshold",
    "enum_discrim_align_threshold",
    "inline_attribute_width",
];

pub struct ConfSpace {
    /// Option names never drawn.
    pub exclude: &'static [&'static str],
    /// (option, value) pairs never drawn.
    pub exclude_values: &'static [(&'static str, &'static str)],
    /// Allow style edition 2027.
    pub allow_2027: bool,
    /// Minimum edition the program needs ("2015".."2024").
    pub min_edition: &'static str,
    /// Upper bound on the number of extra (non-core) options.
    pub max_extra: usize,
    /// Always draw blank_lines bounds / newline style (C08).
    pub whitespace_axes: bool,
}

impl Default for ConfSpace {
    fn default() -> Self {
        ConfSpace {
            exclude: &[],
            exclude_values: &[],
            allow_2027: true,
            min_edition: "2015",
            max_extra: 4,
            whitespace_axes: false,
        }
    }
}

fn allowed(space: &ConfSpace, k: &str, v: &str) -> bool {
    !space.exclude.contains(&k) && !space.exclude_values.iter().any(|(a, b)| *a == k && *b == v)
}

pub fn gen_width(c: &mut Choices<'_>) -> usize {
    match c.weighted(&[3, 3, 2, 2]) {
        0 => 100,
        1 => c.range(20, 60),
        2 => c.range(61, 120),
        _ => c.range(121, 200),
    }
}

/// Draws a configuration. `max_width`, `tab_spaces`, `style_edition`, `edition` are always
/// considered; then 0..=max_extra other options with non-default values.
pub fn gen_conf(c: &mut Choices<'_>, space: &ConfSpace) -> Opts {
    let mut o: Opts = vec![];
    let eds = ["2015", "2018", "2021", "2024"];
    let min_i = eds.iter().position(|e| *e == space.min_edition).unwrap_or(0);
    // style edition
    let se_n = if space.allow_2027 { 5 } else { 4 };
    let se = ["2015", "2024", "2021", "2018", "2027"][c.below(se_n)];
    if !space.exclude.contains(&"style_edition") {
        o.push(("style_edition".into(), se.into()));
    }
    let ed = eds[min_i + c.below(4 - min_i)];
    o.push(("edition".into(), ed.into()));
    // page
    let mut tab = 4;
    if c.chance(1, 3) && !space.exclude.contains(&"tab_spaces") {
        tab = c.range(1, 8);
        o.push(("tab_spaces".into(), tab.to_string()));
    }
    if !space.exclude.contains(&"max_width") {
        let mut w = gen_width(c);
        // usable page: at least five indentation steps
        if w < 5 * tab {
            w = 5 * tab;
        }
        if w != 100 {
            o.push(("max_width".into(), w.to_string()));
        }
    }
    let max_width = crate::fmt::opt_usize(&o, "max_width", 100);
    if space.whitespace_axes {
        let ns = ["Auto", "Unix", "Windows", "Native"][c.below(4)];
        if allowed(space, "newline_style", ns) && ns != "Auto" {
            o.push(("newline_style".into(), ns.into()));
        }
        let lo = if space.exclude.contains(&"blank_lines_lower_bound") { 0 } else { c.below(4) };
        let hi = lo + c.below(4 - lo);
        let hi = if c.chance(1, 2) { 1.max(lo) } else { hi };
        if lo != 0 {
            o.push(("blank_lines_lower_bound".into(), lo.to_string()));
        }
        if hi != 1 {
            o.push(("blank_lines_upper_bound".into(), hi.to_string()));
        }
        if c.chance(1, 4) && allowed(space, "hard_tabs", "true") {
            o.push(("hard_tabs".into(), "true".into()));
        }
    }
    // extras
    let n_extra = if space.max_extra == 0 {
        0
    } else {
        match c.weighted(&[3, 4, 2, 1]) {
            0 => 0,
            1 => 1,
            2 => c.range(2, space.max_extra.max(2)),
            _ => c.range(0, (space.max_extra * 3).max(1)),
        }
    };
    let total = BOOLS.len() + ENUMS.len() + WIDTHS.len() + THRESHOLDS.len();
    for _ in 0..n_extra {
        let i = c.below(total);
        let (k, v): (&str, String) = if i < BOOLS.len() {
            let (k, d) = BOOLS[i];
            (k, (!d).to_string())
        } else if i < BOOLS.len() + ENUMS.len() {
            let (k, vs) = ENUMS[i - BOOLS.len()];
            (k, vs[1 + c.below(vs.len() - 1)].to_string())
        } else if i < BOOLS.len() + ENUMS.len() + WIDTHS.len() {
            let k = WIDTHS[i - BOOLS.len() - ENUMS.len()];
            let v = match c.below(4) {
                0 => 0,
                1 => c.range(0, max_width),
                2 => max_width,
                _ => max_width + c.range(1, 50),
            };
            (k, v.to_string())
        } else {
            let k = THRESHOLDS[i - BOOLS.len() - ENUMS.len() - WIDTHS.len()];
            (k, c.range(0, 60).to_string())
        };
        if !allowed(space, k, &v) || o.iter().any(|(a, _)| a == k) {
            continue;
        }
        o.push((k.to_string(), v));
    }
    if !space.whitespace_axes && c.chance(1, 12) {
        let lo = if space.exclude.contains(&"blank_lines_lower_bound") { 0 } else { c.below(3) };
        let hi = lo + c.below(3);
        if allowed(space, "blank_lines_upper_bound", "") {
            if lo != 0 {
                o.push(("blank_lines_lower_bound".into(), lo.to_string()));
            }
            o.push(("blank_lines_upper_bound".into(), hi.to_string()));
        }
    }
    o
}
