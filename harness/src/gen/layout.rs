//! G-LAYOUT: layout perturbation that provably keeps the token sequence: every whitespace token
//! may be replaced by another non-empty whitespace string; a newline is kept after a line
//! comment; no whitespace is inserted where there was none and none is removed entirely;
//! multi-line tokens and a shebang line are left alone.

use crate::choices::Choices;
use crate::lex::{lex, TK};

#[derive(Debug, Clone, Copy, PartialEq, Eq)]
pub enum Newlines {
    Lf,
    Crlf,
    Mixed,
}

const REPL: &[&str] = &[
    " ", "\n", " ", "\n", "  ", "\n\n", "\t", "\n    ", "\n\t", " \n", "\n\n\n", "   \n  ", "\n\n\n\n\n",
];

/// Re-lays out `src`. `intensity` = 0..=3 (0: untouched).
pub fn relayout(src: &str, c: &mut Choices<'_>, intensity: usize, nl: Newlines) -> String {
    let toks = lex(src);
    let mut out = String::with_capacity(src.len() + 16);
    let (num, den) = match intensity {
        0 => (0, 1),
        1 => (1, 16),
        2 => (1, 4),
        _ => (9, 10),
    };
    let mut prev_line_comment = false;
    for t in toks.iter() {
        let text = t.text(src);
        if t.kind == TK::Whitespace {
            let mut ws: String = if num > 0 && c.chance(num, den) {
                (*c.pick(REPL)).to_string()
            } else {
                // normalise any CRLF of the original to LF; the newline mode re-adds them
                text.replace("\r\n", "\n").replace('\r', " ")
            };
            if ws.is_empty() {
                ws.push(' ');
            }
            if prev_line_comment && !ws.starts_with('\n') {
                ws.insert(0, '\n');
            }
            match nl {
                Newlines::Lf => out.push_str(&ws),
                Newlines::Crlf => out.push_str(&ws.replace('\n', "\r\n")),
                Newlines::Mixed => {
                    for ch in ws.chars() {
                        if ch == '\n' && c.flip() {
                            out.push_str("\r\n");
                        } else {
                            out.push(ch);
                        }
                    }
                }
            }
            prev_line_comment = false;
        } else {
            out.push_str(text);
            prev_line_comment = matches!(t.kind, TK::LineComment | TK::DocLine { .. });
        }
    }
    out
}
