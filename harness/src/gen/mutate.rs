//! G-MUT: token-level mutation (deletion, duplication, swapping, truncation, delimiter
//! imbalance, splicing, non-ASCII insertion).

use crate::choices::Choices;
use crate::lex::{lex, TK};

const NON_ASCII: &[&str] = &["é", "ß", "日本", "🦀", "\u{200b}", "ａ", "Ω", "\u{feff}", "ñ", "一", "\u{3000}", "\u{a0}", "\u{2003}"];
const ODD_LITERALS: &[&str] = &["0b1f32", "0o7f64", "1e", "0x", "0b", "1_f32", "0.0_f32", "1__000", "1.0e+", "'ab'", "b'\\xff'", "r#\"q\"#", "0xffu8", "1e1_0", "0b12", "9.9.9", "1..2.", "0e0f32", "\"first line\nb\".to_string()", "r\"x\ny\".len().max(1)", "\"é\n\".trim().len()"];
const MARKDOWN: &[&str] = &["/// > >é quoted text that goes on for a while so that the wrapping code has something to do with it", "/// - item é\n///     - nested 日本 item that is long enough to be wrapped at small widths for sure", "/// 1. first\n/// 12) second ß", "/// > >>a", "//! * bullet\n//!   continued ａ", "/*\n\u{3000}* wide space before the star\n */", "/// ```\n/// let é = 1;\n/// ```", "/// | a | b |\n/// |---|---|\n/// | é | 日本 |", "///                                                                                                     - an item whose marker stands far to the right of the page", "///     - nested\n///         - deeper nested item with some words in it\n///             1. and an ordered one below"];
const DELIMS: &[&str] = &["(", ")", "[", "]", "{", "}", "<", ">", "\"", "'", "/*", "*/", "//", "r#\"", "|"];

pub fn mutate(src: &str, c: &mut Choices<'_>, n_mut: usize) -> (String, Vec<&'static str>) {
    let mut pieces: Vec<String> = lex(src).iter().map(|t| t.text(src).to_owned()).collect();
    let kinds: Vec<TK> = lex(src).iter().map(|t| t.kind).collect();
    let mut applied = vec![];
    if pieces.is_empty() {
        return (src.to_owned(), applied);
    }
    // indices of non-whitespace tokens, to make mutations hit code
    let sig: Vec<usize> = kinds
        .iter()
        .enumerate()
        .filter(|(_, k)| **k != TK::Whitespace)
        .map(|(i, _)| i)
        .collect();
    if sig.is_empty() {
        return (src.to_owned(), applied);
    }
    for _ in 0..n_mut.max(1) {
        let i = sig[c.below(sig.len())].min(pieces.len() - 1);
        match c.below(12) {
            0 => {
                pieces[i].clear();
                applied.push("delete");
            }
            1 => {
                let p = pieces[i].clone();
                pieces[i] = format!("{p} {p}");
                applied.push("duplicate");
            }
            2 => {
                let j = sig[c.below(sig.len())].min(pieces.len() - 1);
                pieces.swap(i, j);
                applied.push("swap");
            }
            3 => {
                // truncate: at a token boundary or inside the token
                let keep_inside = c.flip();
                pieces.truncate(i + 1);
                if keep_inside {
                    let p = &pieces[i];
                    let mut cut = c.below(p.len().max(1));
                    while cut > 0 && !p.is_char_boundary(cut) {
                        cut -= 1;
                    }
                    pieces[i] = p[..cut].to_owned();
                }
                applied.push("truncate");
                if pieces.is_empty() {
                    break;
                }
            }
            4 => {
                let d = *c.pick(DELIMS);
                pieces[i] = format!("{d}{}", pieces[i]);
                applied.push("insert-delim");
            }
            5 => {
                // delimiter imbalance: drop the next delimiter at or after i
                let mut done = false;
                for k in i..pieces.len() {
                    if matches!(pieces[k].as_str(), "(" | ")" | "[" | "]" | "{" | "}") {
                        pieces[k].clear();
                        done = true;
                        break;
                    }
                }
                applied.push(if done { "drop-delim" } else { "drop-delim-none" });
            }
            6 => {
                // splice a run of tokens from elsewhere
                let j = sig[c.below(sig.len())].min(pieces.len() - 1);
                let len = 1 + c.below(8);
                let run: String = pieces[j..(j + len).min(pieces.len())].concat();
                pieces[i] = format!("{} {run}", pieces[i]);
                applied.push("splice");
            }
            7 => {
                let s = *c.pick(NON_ASCII);
                let p = &pieces[i];
                let mut at = c.below(p.len() + 1);
                while at > 0 && !p.is_char_boundary(at) {
                    at -= 1;
                }
                pieces[i] = format!("{}{s}{}", &p[..at], &p[at..]);
                applied.push("non-ascii");
            }
            10 => {
                // a literal token replaced by an odd but lexable literal
                let lits: Vec<usize> = sig.iter().copied().filter(|k| *k < pieces.len() && kinds.get(*k).map(|t| t.is_literal()).unwrap_or(false)).collect();
                let k = if lits.is_empty() { i } else { lits[c.below(lits.len())] };
                pieces[k] = (*c.pick(ODD_LITERALS)).to_string();
                applied.push("odd-literal");
            }
            11 => {
                // a doc / block comment with markdown markers and multi-byte text before a token
                let m = *c.pick(MARKDOWN);
                pieces[i] = format!("\n{m}\n{}", pieces[i]);
                applied.push("markdown-comment");
            }
            9 => {
                // an identifier with multi-byte letters next to `_` and digits (names are
                // compared chunk-wise by the version sort)
                let idents: Vec<usize> = sig.iter().copied().filter(|k| *k < pieces.len() && matches!(kinds.get(*k), Some(TK::Ident))).collect();
                if !idents.is_empty() {
                    let k = idents[c.below(idents.len())];
                    let l = *c.pick(&["é", "ß", "日本", "Ω", "ñ", "一", "β"]);
                    let base = pieces[k].clone();
                    pieces[k] = match c.below(5) {
                        0 => format!("{l}_{base}"),
                        1 => format!("{base}{l}{}", c.below(100)),
                        2 => format!("{l}{}_{base}", c.below(10)),
                        3 => format!("{base}_{l}_{}", c.below(10)),
                        _ => format!("{l}{l}0{}{l}", c.below(10)),
                    };
                }
                applied.push("unicode-ident");
            }
            _ => {
                // replace the token by another token of the file
                let j = sig[c.below(sig.len())].min(pieces.len() - 1);
                pieces[i] = pieces[j].clone();
                applied.push("replace");
            }
        }
    }
    (pieces.concat(), applied)
}
