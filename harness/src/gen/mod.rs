pub mod conf;
pub mod grid;
pub mod layout;
pub mod macros;
pub mod mutate;
pub mod prog;
pub mod source;
pub mod tree;
