//! G-TREE: generator of crate directory trees together with the reference model's answer
//! (which files are reachable and not excluded), written from the Rust Reference's rules for
//! module source file names and the `path` attribute, not from rustfmt's resolver.

use serde::{Deserialize, Serialize};

use crate::choices::Choices;

#[derive(Debug, Clone, Serialize, Deserialize, PartialEq, Eq)]
pub enum Role {
    Root,
    Module,
    /// a `.rs` file nobody declares
    Decoy,
    /// reachable but excluded (skip attribute, inner skip, ignore, @generated)
    Excluded,
    Config,
}

#[derive(Debug, Clone, Serialize, Deserialize)]
pub struct TreeFile {
    /// path relative to the tree's directory
    pub path: String,
    pub content: String,
    pub role: Role,
    /// position in visiting order (root = 0), for fault placement
    pub order: usize,
    /// how the file is declared: root, plain, inline, path, cfg_if, cfg_attr, shared, excluded, decoy, config
    #[serde(default)]
    pub decl: String,
}

#[derive(Debug, Clone, Serialize, Deserialize)]
pub struct Tree {
    pub files: Vec<TreeFile>,
    pub root: String,
    pub labels: Vec<String>,
    pub skip_children: bool,
}

pub struct TreeSpace {
    pub max_depth: usize,
    pub max_children: usize,
    pub exclusions: bool,
    pub decoys: bool,
    pub exotic: bool,
}

impl Default for TreeSpace {
    fn default() -> Self {
        TreeSpace {
            max_depth: 3,
            max_children: 3,
            exclusions: true,
            decoys: true,
            exotic: true,
        }
    }
}

struct B<'a, 'b> {
    c: &'a mut Choices<'b>,
    files: Vec<TreeFile>,
    labels: Vec<String>,
    next: usize,
    space: &'a TreeSpace,
    ignore: Vec<String>,
    pending_decl: String,
    next_decl: String,
}

fn dir_of(path: &str) -> String {
    match path.rfind('/') {
        Some(i) => path[..i].to_owned(),
        None => String::new(),
    }
}

fn join(dir: &str, rest: &str) -> String {
    if dir.is_empty() {
        rest.to_owned()
    } else {
        format!("{dir}/{rest}")
    }
}

impl<'a, 'b> B<'a, 'b> {
    fn label(&mut self, l: &str) {
        if !self.labels.iter().any(|x| x == l) {
            self.labels.push(l.to_owned());
        }
    }
    fn fresh(&mut self) -> usize {
        self.next += 1;
        self.next
    }
    fn unformatted_fn(&mut self, id: usize) -> String {
        // deliberately unformatted so that "formatted" is observable
        match self.c.below(3) {
            0 => format!("pub fn  f_{id} ( ) {{  }}\n"),
            1 => format!("pub fn f_{id}(){{let x=1;}}\n"),
            _ => format!("pub   struct S{id}{{a:u8}}\n"),
        }
    }
    /// Generates the file at `path` (module directory `d`) and, recursively, its children.
    fn module(&mut self, path: String, d: String, depth: usize, role: Role, leaf: bool) {
        let id = self.fresh();
        let order = self.files.len();
        let idx = self.files.len();
        let decl = std::mem::take(&mut self.pending_decl);
        self.files.push(TreeFile { path: path.clone(), content: String::new(), role, order, decl });
        let mut content = String::new();
        content.push_str(&self.unformatted_fn(id));
        let n = if leaf || depth == 0 { 0 } else { self.c.below(self.space.max_children + 1) };
        for _ in 0..n {
            let cid = self.fresh();
            let name = format!("m{cid}");
            let kind = if self.space.exotic { self.c.weighted(&[6, 2, 2, 1, 1, 1, 1, 1, 1, 1, 1]) } else { 0 };
            match kind {
                1 => {
                    // #[path] on a file-level declaration: relative to the directory of this file
                    let target = match self.c.below(3) {
                        0 => format!("p_{cid}.rs"),
                        1 => format!("pathdir{cid}/file.rs"),
                        _ => format!("pathdir{cid}/mod.rs"),
                    };
                    content.push_str(&format!("#[path = \"{target}\"]\nmod {name};\n"));
                    let child = join(&dir_of(&path), &target);
                    // children of a path-loaded file resolve in the directory of that file
                    let cd = dir_of(&child);
                    self.label("path-attr");
                    let leaf = self.c.chance(2, 3);
                    self.pending_decl = "path".into();
                    self.module(child, cd, depth - 1, Role::Module, leaf);
                }
                2 => {
                    // inline nesting: mod a { mod b; } -> D/a/b.rs or D/a/b/mod.rs
                    let inner = format!("i{cid}");
                    content.push_str(&format!("mod {inner} {{\n    pub fn  inline_{cid} ( ) {{ }}\n    mod {name};\n}}\n"));
                    let base = join(&d, &inner);
                    self.label("inline-nesting");
                    self.next_decl = "inline".into();
                    self.child_file(&base, &name, depth - 1);
                }
                3 => {
                    // cfg_if!: both branches are reached
                    let other = format!("m{}", self.fresh());
                    content.push_str(&format!(
                        "cfg_if::cfg_if! {{\n    if #[cfg(unix)] {{\n        mod {name};\n    }} else {{\n        mod {other};\n    }}\n}}\n"
                    ));
                    self.label("cfg_if");
                    self.next_decl = "cfg_if".into();
                    self.child_file(&d.clone(), &name, depth - 1);
                    self.next_decl = "cfg_if".into();
                    self.child_file(&d.clone(), &other, depth - 1);
                }
                9 => {
                    // #[path] on an inline module: names a directory, relative to the directory
                    // of the declaring file (whatever the style of that file)
                    let pd = format!("pd{cid}");
                    content.push_str(&format!("#[path = \"{pd}\"]\nmod pi{cid} {{\n    pub fn  in_path_inline_{cid} ( ) {{ }}\n    mod {name};\n}}\n"));
                    let base = join(&dir_of(&path), &pd);
                    self.label("path-on-inline-module");
                    self.next_decl = "path".into();
                    self.child_file(&base, &name, depth - 1);
                }
                7 => {
                    // cfg_match!: every arm is reached
                    let other = format!("m{}", self.fresh());
                    content.push_str(&format!(
                        "std::cfg_match! {{\n    test => {{\n        mod {name};\n    }}\n    _ => {{\n        mod {other};\n    }}\n}}\n"
                    ));
                    self.label("cfg_match");
                    self.next_decl = "cfg_if".into();
                    self.child_file(&d.clone(), &name, depth - 1);
                    self.next_decl = "cfg_if".into();
                    self.child_file(&d.clone(), &other, depth - 1);
                }
                8 => {
                    // the documented fallback: declared in a non-mod-rs file `x/name.rs`, the
                    // nested location `x/name/c.rs` does not exist, `x/c.rs` does
                    let own_dir = dir_of(&path);
                    if own_dir != d {
                        content.push_str(&format!("mod {name};\n"));
                        let p = join(&own_dir, &format!("{name}.rs"));
                        self.label("fallback-to-own-directory");
                        self.pending_decl = "fallback".into();
                        self.module(p, join(&own_dir, &name), 0, Role::Module, true);
                    } else {
                        content.push_str(&format!("mod {name};\n"));
                        self.next_decl = "plain".into();
                        self.child_file(&d.clone(), &name, depth - 1);
                    }
                }
                6 => {
                    // an inline module inside a cfg_if! branch that declares an out-of-line module
                    let inner = format!("ci{cid}");
                    content.push_str(&format!(
                        "cfg_if::cfg_if! {{\n    if #[cfg(unix)] {{\n        mod {inner} {{\n            pub fn  in_cfg_if_{cid} ( ) {{ }}\n            mod {name};\n        }}\n    }}\n}}\n"
                    ));
                    let base = join(&d, &inner);
                    self.label("cfg_if-inline-nesting");
                    self.next_decl = "cfg_if".into();
                    self.child_file(&base, &name, depth - 1);
                }
                4 => {
                    // cfg_attr(path): both the named file and the default location
                    let target = format!("alt_{cid}.rs");
                    content.push_str(&format!("#[cfg_attr(unix, path = \"{target}\")]\nmod {name};\n"));
                    let alt = join(&dir_of(&path), &target);
                    let ad = dir_of(&alt);
                    self.label("cfg_attr-path");
                    self.pending_decl = "cfg_attr".into();
                    self.module(alt, ad, 0, Role::Module, true);
                    self.next_decl = "cfg_attr".into();
                    self.child_file(&d.clone(), &name, 0);
                }
                10 if self.space.exclusions => {
                    // a skipped inline module: the declarations in its body are skipped code, the
                    // files they name are not visited (in one case of three the file does not
                    // exist at all, which must not be an error)
                    let inner = format!("sk{cid}");
                    let attr = *self.c.pick(&["#[rustfmt::skip]", "#[cfg_attr(rustfmt, rustfmt::skip)]"]);
                    content.push_str(&format!("{attr}\nmod {inner} {{\n    pub fn  keep_{cid} ( ) {{ }}\n    mod {name};\n}}\n"));
                    let base = join(&d, &inner);
                    self.label("skip-on-inline-module");
                    if self.c.chance(2, 3) {
                        self.child_excluded(&base, &name, "");
                    }
                }
                5 => {
                    // the same file reached twice
                    let target = format!("shared_{cid}.rs");
                    let name2 = format!("m{}", self.fresh());
                    // the second mount spells the same path differently in one case of two
                    let target2 = if self.c.flip() {
                        let up = format!("updir{cid}");
                        let did = self.fresh();
                        let body = self.unformatted_fn(did);
                        let order = self.files.len();
                        // (a file below it makes the directory exist)
                        self.files.push(TreeFile { path: join(&join(&dir_of(&path), &up), &format!("decoy_{did}.rs")), content: body, role: Role::Decoy, order, decl: "decoy".into() });
                        self.label("reached-twice-other-spelling");
                        format!("{up}/../{target}")
                    } else {
                        target.clone()
                    };
                    content.push_str(&format!("#[path = \"{target}\"]\nmod {name};\n#[path = \"{target2}\"]\nmod {name2};\n"));
                    let shared = join(&dir_of(&path), &target);
                    let sd = dir_of(&shared);
                    self.label("reached-twice");
                    self.pending_decl = "shared".into();
                    self.module(shared, sd, 0, Role::Module, true);
                }
                _ => {
                    // plain declaration, possibly excluded
                    let excl = if self.space.exclusions { self.c.weighted(&[10, 1, 1, 1, 1]) } else { 0 };
                    match excl {
                        1 => {
                            content.push_str(&format!("#[rustfmt::skip]\nmod {name};\n"));
                            self.label("skip-on-declaration");
                            self.child_excluded(&d.clone(), &name, "");
                        }
                        2 => {
                            content.push_str(&format!("mod {name};\n"));
                            self.label("inner-skip");
                            self.child_excluded(&d.clone(), &name, "#![rustfmt::skip]\n");
                        }
                        3 => {
                            content.push_str(&format!("mod {name};\n"));
                            if self.c.flip() {
                                self.label("ignore");
                                let p = self.child_excluded(&d.clone(), &name, "");
                                self.ignore.push(p);
                            } else {
                                // a directory pattern with a trailing slash: `name/mod.rs` below it
                                self.label("ignore-directory");
                                let id = self.fresh();
                                let p = join(&join(&d, &name), "mod.rs");
                                let body = self.unformatted_fn(id);
                                let order = self.files.len();
                                self.files.push(TreeFile { path: p, content: body, role: Role::Excluded, order, decl: "excluded".into() });
                                self.ignore.push(format!("{}/", join(&d, &name)));
                            }
                        }
                        4 => {
                            content.push_str(&format!("mod {name};\n"));
                            self.label("generated");
                            self.child_excluded(&d.clone(), &name, "// @generated by a tool\n");
                        }
                        _ => {
                            content.push_str(&format!("mod {name};\n"));
                            self.next_decl = "plain".into();
                            self.child_file(&d.clone(), &name, depth - 1);
                        }
                    }
                }
            }
            if self.space.decoys && self.c.chance(1, 4) {
                let did = self.fresh();
                let p = join(&d, &format!("decoy_{did}.rs"));
                let body = self.unformatted_fn(did);
                let order = self.files.len();
                self.files.push(TreeFile { path: p, content: body, role: Role::Decoy, order, decl: "decoy".into() });
                self.label("decoy");
            }
        }
        self.files[idx].content = content;
    }
    /// `mod name;` resolved in directory `base`: `base/name.rs` or `base/name/mod.rs`.
    fn child_file(&mut self, base: &str, name: &str, depth: usize) {
        self.pending_decl = std::mem::take(&mut self.next_decl);
        if self.c.flip() {
            let p = join(base, &format!("{name}.rs"));
            // non-mod-rs file: its module directory is base/name/
            let d = join(base, name);
            self.label("name.rs");
            self.module(p, d, depth, Role::Module, false);
        } else {
            let p = join(base, &format!("{name}/mod.rs"));
            let d = join(base, name);
            self.label("name/mod.rs");
            self.module(p, d, depth, Role::Module, false);
        }
    }
    fn child_excluded(&mut self, base: &str, name: &str, header: &str) -> String {
        let id = self.fresh();
        let p = join(base, &format!("{name}.rs"));
        let body = format!("{header}{}", self.unformatted_fn(id));
        let order = self.files.len();
        self.files.push(TreeFile { path: p.clone(), content: body, role: Role::Excluded, order, decl: "excluded".into() });
        p
    }
}

pub fn gen_tree(c: &mut Choices<'_>, space: &TreeSpace) -> Tree {
    let mut b = B { c, files: vec![], labels: vec![], next: 0, space, ignore: vec![], pending_decl: "root".into(), next_decl: String::new() };
    let root = (*b.c.pick(&["main.rs", "lib.rs", "src/lib.rs", "src/main.rs"])).to_string();
    let d = dir_of(&root);
    let depth = 1 + b.c.below(space.max_depth);
    b.module(root.clone(), d, depth, Role::Root, false);
    let skip_children = space.exclusions && b.c.chance(1, 12);
    // an ignore entry that matches the entry point itself: the root stays as it is, its children
    // are still formatted
    if space.exclusions && b.c.chance(1, 10) {
        b.ignore.push(root.clone());
        b.labels.push("root-ignored".into());
    }
    let mut cfg = String::new();
    let generated = b.labels.iter().any(|l| l == "generated");
    if generated {
        cfg.push_str("format_generated_files = false\n");
    }
    if !b.ignore.is_empty() {
        cfg.push_str(&format!("ignore = [{}]\n", b.ignore.iter().map(|p| format!("\"{p}\"")).collect::<Vec<_>>().join(", ")));
    }
    if !cfg.is_empty() {
        let order = b.files.len();
        b.files.push(TreeFile { path: "rustfmt.toml".into(), content: cfg, role: Role::Config, order, decl: "config".into() });
    }
    if skip_children {
        b.labels.push("skip_children".into());
    }
    Tree { files: b.files, root, labels: b.labels, skip_children }
}

impl Tree {
    pub fn write_to(&self, dir: &std::path::Path) {
        let _ = std::fs::remove_dir_all(dir);
        for f in &self.files {
            let p = dir.join(&f.path);
            if let Some(parent) = p.parent() {
                let _ = std::fs::create_dir_all(parent);
            }
            let _ = std::fs::write(&p, &f.content);
        }
    }
    /// Files the reference model expects to be formatted.
    pub fn expected(&self) -> Vec<&TreeFile> {
        self.files
            .iter()
            .filter(|f| match f.role {
                Role::Root => !self.labels.iter().any(|l| l == "root-ignored"),
                Role::Module => !self.skip_children,
                _ => false,
            })
            .collect()
    }
}

/// Snapshot of all regular files below `dir`: relative path -> bytes.
pub fn snapshot(dir: &std::path::Path) -> std::collections::BTreeMap<String, Vec<u8>> {
    fn walk(base: &std::path::Path, dir: &std::path::Path, out: &mut std::collections::BTreeMap<String, Vec<u8>>) {
        if let Ok(rd) = std::fs::read_dir(dir) {
            for e in rd.flatten() {
                let p = e.path();
                if p.is_dir() {
                    walk(base, &p, out);
                } else if let Ok(b) = std::fs::read(&p) {
                    out.insert(p.strip_prefix(base).unwrap().to_string_lossy().into_owned(), b);
                }
            }
        }
    }
    let mut m = std::collections::BTreeMap::new();
    walk(dir, dir, &mut m);
    m
}
