//! Generator of programs that consist of declarative macro definitions and macro invocations
//! (C01: "inside macro invocations and macro definitions as well as in ordinary code").
//! Metavariable names are short and the bodies use identifiers that contain `z<name>`: rustfmt
//! formats a macro body after replacing `$name` by a placeholder identifier, so such words are
//! where a placeholder scheme can go wrong.

use crate::choices::Choices;

const METAS: &[&str] = &["e", "x", "a", "i", "s", "n", "t", "ty", "v", "k", "id", "ex"];
const WORDS: &[&str] = &[
    "size", "resize", "zen", "zx", "lazy", "zip", "za", "zs", "zty", "ze", "zi", "zv", "zk", "zid", "fuzzy", "pizza", "buzz", "zn1", "zex", "zt", "unzip", "azure", "ze_x", "zzz", "value", "count", "item", "Zed", "ZX",
];
const TYPES: &[&str] = &["u8", "usize", "String", "Zty", "Vec<u8>", "Option<zt::Zen>"];

fn word(c: &mut Choices<'_>) -> &'static str {
    *c.pick(WORDS)
}

fn expr(c: &mut Choices<'_>, metas: &[(&'static str, &'static str)], d: usize) -> String {
    let exprs: Vec<&str> = metas.iter().filter(|m| m.1 == "expr").map(|m| m.0).collect();
    let idents: Vec<&str> = metas.iter().filter(|m| m.1 == "ident").map(|m| m.0).collect();
    match c.weighted(&[4, 4, 3, 2, 2, 1]) {
        0 => word(c).to_string(),
        1 if !exprs.is_empty() => format!("${}", c.pick(&exprs)),
        2 if d > 0 => format!("{}({}, {})", word(c), expr(c, metas, d - 1), expr(c, metas, d - 1)),
        3 if d > 0 => format!("{} + {}", expr(c, metas, d - 1), expr(c, metas, d - 1)),
        4 if !idents.is_empty() => format!("{}.${}", word(c), c.pick(&idents)),
        5 if d > 0 => format!("{}.{}({})", word(c), word(c), expr(c, metas, d - 1)),
        _ => (*c.pick(&["1", "0x1F", "\"zx size\"", "true"])).to_string(),
    }
}

fn body(c: &mut Choices<'_>, metas: &[(&'static str, &'static str)]) -> String {
    let mut s = String::new();
    let n = 1 + c.below(4);
    let tys: Vec<&str> = metas.iter().filter(|m| m.1 == "ty").map(|m| m.0).collect();
    let idents: Vec<&str> = metas.iter().filter(|m| m.1 == "ident").map(|m| m.0).collect();
    for i in 0..n {
        match c.weighted(&[4, 3, 2, 2, 1]) {
            0 => s.push_str(&format!("let {} = {} ; ", word(c), expr(c, metas, 2))),
            1 => s.push_str(&format!("{}({}) ; ", word(c), expr(c, metas, 2))),
            2 if !tys.is_empty() => s.push_str(&format!("let {} : ${} = {} ; ", word(c), c.pick(&tys), expr(c, metas, 1))),
            3 if !idents.is_empty() => s.push_str(&format!("let ${} = {} ; ", c.pick(&idents), expr(c, metas, 1))),
            4 => s.push_str(&format!("if {} {{ {}({}) ; }} ", expr(c, metas, 1), word(c), expr(c, metas, 1))),
            _ => s.push_str(&format!("{} = {} ; ", word(c), expr(c, metas, 1))),
        }
        let _ = i;
    }
    if c.flip() {
        s.push_str(&expr(c, metas, 2));
    }
    s
}

pub fn gen_macro_program(c: &mut Choices<'_>) -> String {
    let mut out = String::new();
    let n_items = 1 + c.below(3);
    for k in 0..n_items {
        match c.weighted(&[5, 2, 1]) {
            0 => {
                let name = format!("{}_{k}", c.pick(&["mk", "zap", "size_of", "lazy_init"]));
                out.push_str(&format!("macro_rules ! {name} {{ "));
                let arms = 1 + c.below(3);
                for a in 0..arms {
                    // matcher
                    let nm = 1 + c.below(3);
                    let mut metas: Vec<(&'static str, &'static str)> = vec![];
                    let mut matcher = String::new();
                    for j in 0..nm {
                        let m = *c.pick(METAS);
                        if metas.iter().any(|x| x.0 == m) {
                            continue;
                        }
                        let frag = *c.pick(&["expr", "expr", "ident", "ty"]);
                        if j > 0 && !matcher.is_empty() {
                            matcher.push_str(" , ");
                        }
                        matcher.push_str(&format!("${m} : {frag}"));
                        metas.push((m, frag));
                    }
                    if a > 0 {
                        // distinguish arms by a leading literal token
                        matcher = format!("@arm{a} {matcher}");
                    }
                    out.push_str(&format!("( {matcher} ) => {{ {} }}", body(c, &metas)));
                    if a + 1 < arms || c.flip() {
                        out.push_str(" ; ");
                    }
                }
                out.push_str(" }\n");
            }
            1 => {
                // an ordinary function that invokes macros
                out.push_str(&format!("fn {}_{k} ( ) {{ ", c.pick(&["run", "zx", "resize"])));
                let calls = 1 + c.below(3);
                for _ in 0..calls {
                    let m = *c.pick(&["mk_0", "zap_0", "println", "vec", "assert_eq", "lazy_init_1"]);
                    let args: Vec<String> = (0..c.below(4)).map(|_| expr(c, &[], 1)).collect();
                    let (o, cl) = if m == "vec" { ("[", "]") } else { ("(", ")") };
                    if m == "println" {
                        out.push_str(&format!("println ! ( \"{{}} {{}}\" , {} , {} ) ; ", word(c), word(c)));
                    } else {
                        out.push_str(&format!("{m} ! {o} {} {cl} ; ", args.join(" , ")));
                    }
                }
                out.push_str("}\n");
            }
            _ => {
                out.push_str(&format!("struct {} {{ {} : {} , {} : {} }}\n", c.pick(&["Zen", "Size", "Lazy"]), word(c), c.pick(TYPES), word(c), c.pick(TYPES)));
            }
        }
    }
    out
}
