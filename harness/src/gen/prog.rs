//! G-PROG: grammar-based program generator (see DESIGN §3). Filled in incrementally.

use crate::choices::Choices;

pub struct Prog {
    pub text: String,
    pub min_edition: &'static str,
    pub tags: Vec<String>,
}

pub fn gen_prog(_c: &mut Choices<'_>) -> Prog {
    Prog {
        text: "fn main() {}\n".into(),
        min_edition: "2015",
        tags: vec![],
    }
}
