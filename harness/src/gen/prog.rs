//! G-PROG: grammar-based program generator (constructive, no rejection).
//!
//! A program is generated as a flat list of pieces: tokens, comment slots (the positions C03
//! names) and node brackets (the nodes that accept attributes, for C04/C17). `render` lays the
//! pieces out with generated whitespace, optionally inserting uniquely numbered comments into
//! slots, and reports where every node and comment ended up.

use crate::choices::Choices;

#[derive(Debug, Clone, Copy, PartialEq, Eq, Hash)]
pub enum SlotKind {
    BetweenItems,
    BetweenStmts,
    BetweenFields,
    BetweenVariants,
    BetweenArms,
    BetweenParams,
    BetweenArgs,
    /// after the separator of a list element / statement, on the same line
    EndOfLine,
}

impl SlotKind {
    pub fn name(self) -> &'static str {
        match self {
            SlotKind::BetweenItems => "between-items",
            SlotKind::BetweenStmts => "between-stmts",
            SlotKind::BetweenFields => "between-fields",
            SlotKind::BetweenVariants => "between-variants",
            SlotKind::BetweenArms => "between-arms",
            SlotKind::BetweenParams => "between-params",
            SlotKind::BetweenArgs => "between-args",
            SlotKind::EndOfLine => "end-of-line",
        }
    }
}

#[derive(Debug, Clone, Copy, PartialEq, Eq, Hash)]
pub enum NodeKind {
    Item,
    NestedItem,
    AssocItem,
    ForeignItem,
    LetStmt,
    ExprStmt,
    MacStmt,
    Expr,
    Field,
    Variant,
    Arm,
    InlineMod,
}

impl NodeKind {
    pub fn name(self) -> &'static str {
        match self {
            NodeKind::Item => "item",
            NodeKind::NestedItem => "nested-item",
            NodeKind::AssocItem => "assoc-item",
            NodeKind::ForeignItem => "foreign-item",
            NodeKind::LetStmt => "let-stmt",
            NodeKind::ExprStmt => "expr-stmt",
            NodeKind::MacStmt => "mac-stmt",
            NodeKind::Expr => "expr",
            NodeKind::Field => "field",
            NodeKind::Variant => "variant",
            NodeKind::Arm => "arm",
            NodeKind::InlineMod => "inline-mod",
        }
    }
    pub fn is_stmt(self) -> bool {
        matches!(self, NodeKind::LetStmt | NodeKind::ExprStmt | NodeKind::MacStmt)
    }
}

#[derive(Debug, Clone)]
pub enum Piece {
    Tok(String),
    Slot(SlotKind),
    NodeStart(NodeKind, usize, /* inside a fn body */ bool),
    NodeEnd(usize),
}

pub struct Prog {
    pub pieces: Vec<Piece>,
    pub min_edition: &'static str,
    /// uses `try!`: parses only under edition 2015
    pub only_2015: bool,
    pub tags: Vec<&'static str>,
    pub n_nodes: usize,
}

struct G<'a, 'b> {
    c: &'a mut Choices<'b>,
    p: Vec<Piece>,
    tags: Vec<&'static str>,
    next_node: usize,
    min_edition: &'static str,
    max_depth: usize,
    max_arity: usize,
    in_fn: usize,
    budget: isize,
    only_2015: bool,
    /// the operand being generated is followed by a binary operator
    followed_by_op: bool,
    no_empty_stmt: bool,
    no_imports: bool,
}

const SHORT: &[&str] = &["a", "b", "x", "y", "f", "g", "n", "v", "it", "s", "foo", "bar", "baz", "tmp"];
const LONG: &[&str] = &[
    "value_of_interest",
    "configuration_entry",
    "an_exceedingly_long_identifier_name",
    "another_quite_long_function_name_here",
    "accumulated_result_so_far",
    "intermediate_representation",
    "xxxxxxxxxxxxxxxxxxxxxxxxxxxxxxxxxxxxxxxxxxxxxxxx",
    "process_incoming_request_batch",
];
const ODD: &[&str] = &["r#type", "r#match", "größe", "данные", "名前", "_", "_unused", "x0", "X_1"];
const TYPES: &[&str] = &["u8", "u32", "i64", "usize", "bool", "String", "Foo", "Bar", "T", "Self", "str", "f64"];
const LONG_TYPES: &[&str] = &["SomeVeryLongTypeNameForTesting", "AnotherLongishTypeName", "Configuration", "RequestHandler"];
const TRAITS: &[&str] = &["Clone", "Debug", "Send", "Sync", "Iterator", "Display", "Default", "SomeLongTraitNameForBounds"];
const LIFETIMES: &[&str] = &["'a", "'b", "'static", "'_", "'long_lifetime_name"];
const INTS: &[&str] = &["0", "1", "42", "0xff", "0xDEAD_beef", "0o17", "0b1010_0101", "1_000_000", "7u8", "255usize", "0x1Fi64", "123456789012345"];
const FLOATS: &[&str] = &["1.0", "0.5", "1e10", "2.5e-3", "1.0f32", "3.14159_26535", "1.", "10f64", "6.02E23", "0.05", "1.05e3", "3.025f64", "10.010", "0.000", "7.0e2", "0.0_5", "2.00_0"];
const STRS: &[&str] = &[
    "\"\"",
    "\"hello\"",
    "\"a somewhat longer string literal with several words in it\"",
    "\"esc \\n \\t \\\\ \\\" \\u{1F980} \\x41\"",
    "\"naïve ünïcödé 日本語\"",
    "r\"raw\"",
    "r#\"raw \" hash\"#",
    "b\"bytes\\x00\"",
    "br\"raw bytes\"",
    "\"line one \\\n        continued\"",
    "\"{} {:?} {name}\"",
];
const CHARS: &[&str] = &["'a'", "'\\n'", "'\\''", "'\\u{7f}'", "'é'", "b'x'", "b'\\\\'", "'\"'"];
const BINOPS: &[&str] = &["+", "-", "*", "/", "%", "&&", "||", "&", "|", "^", "<<", ">>"];
const CMPOPS: &[&str] = &["==", "!=", "<", ">", "<=", ">="];
const ASSIGNOPS: &[&str] = &["=", "+=", "-=", "*=", "/=", "%=", "&=", "|=", "^=", "<<=", ">>="];
const ABIS: &[&str] = &["\"C\"", "\"Rust\"", "\"system\"", "\"stdcall\""];
const MACROS: &[&str] = &["println", "vec", "format", "assert_eq", "my_macro", "write", "matches", "debug_assert", "a_long_macro_name_for_breaking"];

impl<'a, 'b> G<'a, 'b> {
    fn t(&mut self, s: &str) {
        self.budget -= 1;
        self.p.push(Piece::Tok(s.to_owned()));
    }
    fn ts(&mut self, ss: &[&str]) {
        for s in ss {
            self.t(s);
        }
    }
    fn slot(&mut self, k: SlotKind) {
        self.p.push(Piece::Slot(k));
    }
    fn tag(&mut self, t: &'static str) {
        if !self.tags.contains(&t) {
            self.tags.push(t);
        }
    }
    fn need(&mut self, ed: &'static str) {
        if ed > self.min_edition {
            self.min_edition = ed;
        }
    }
    /// async/await need edition >= 2018; programs using `try!` only parse under 2015
    fn modern(&mut self) -> bool {
        if self.only_2015 {
            return false;
        }
        self.need("2018");
        true
    }
    fn start(&mut self, k: NodeKind) -> usize {
        let id = self.next_node;
        self.next_node += 1;
        self.p.push(Piece::NodeStart(k, id, self.in_fn > 0));
        id
    }
    fn end(&mut self, id: usize) {
        self.p.push(Piece::NodeEnd(id));
    }
    fn small(&self) -> bool {
        self.budget <= 0
    }
    fn arity(&mut self, min: usize) -> usize {
        if self.small() {
            return min;
        }
        let m = self.max_arity;
        min + self.c.weighted(&[3, 4, 3, 2, 1, 1]).min(m.saturating_sub(min))
    }

    fn ident(&mut self) -> String {
        match self.c.weighted(&[6, 3, 1]) {
            0 => (*self.c.pick(SHORT)).to_string(),
            1 => (*self.c.pick(LONG)).to_string(),
            _ => {
                let s = *self.c.pick(ODD);
                if s == "_" {
                    "_x".to_string()
                } else {
                    if !s.is_ascii() {
                        self.tag("non-ascii-ident");
                    }
                    s.to_string()
                }
            }
        }
    }
    fn type_name(&mut self) -> String {
        match self.c.weighted(&[5, 2]) {
            0 => (*self.c.pick(TYPES)).to_string(),
            _ => (*self.c.pick(LONG_TYPES)).to_string(),
        }
    }
    fn upper_ident(&mut self) -> String {
        (*self
            .c
            .pick(&["Foo", "Bar", "Baz", "Alpha", "SomeVeryLongTypeNameForTesting", "Wrapper", "Node", "Übung"]))
        .to_string()
    }

    // ---- types ------------------------------------------------------------------------------
    fn ty(&mut self, d: usize) {
        if d == 0 || self.small() {
            let n = self.type_name();
            self.t(&n);
            return;
        }
        match self.c.weighted(&[8, 4, 3, 2, 2, 2, 2, 1, 1, 1, 1]) {
            0 => {
                let n = self.type_name();
                self.t(&n);
            }
            1 => {
                // generic path
                self.tag("generic-type");
                let n = *self.c.pick(&["Vec", "Option", "Result", "HashMap", "Box", "std::collections::BTreeMap", "Rc"]);
                for (i, seg) in n.split("::").enumerate() {
                    if i > 0 {
                        self.t("::");
                    }
                    self.t(seg);
                }
                self.t("<");
                let k = 1 + self.c.below(2);
                for i in 0..k {
                    if i > 0 {
                        self.t(",");
                    }
                    if self.c.chance(1, 8) {
                        let l = *self.c.pick(LIFETIMES);
                        self.t(l);
                    } else {
                        self.ty(d - 1);
                    }
                }
                if self.c.chance(1, 8) {
                    self.t(",");
                }
                self.t(">");
            }
            2 => {
                self.t("&");
                if self.c.chance(1, 3) {
                    let l = *self.c.pick(LIFETIMES);
                    self.t(l);
                }
                if self.c.chance(1, 3) {
                    self.t("mut");
                }
                self.ty(d - 1);
            }
            3 => {
                self.tag("tuple-type");
                self.t("(");
                let k = self.c.below(4);
                for i in 0..k {
                    if i > 0 {
                        self.t(",");
                    }
                    self.ty(d - 1);
                }
                if k == 1 {
                    self.t(",");
                }
                self.t(")");
            }
            4 => {
                self.t("[");
                self.ty(d - 1);
                if self.c.flip() {
                    self.t(";");
                    let n = *self.c.pick(&["4", "N", "LEN + 1", "32"]);
                    for w in n.split(' ') {
                        self.t(w);
                    }
                }
                self.t("]");
            }
            5 => {
                self.t("*");
                let m = *self.c.pick(&["const", "mut"]);
                self.t(m);
                self.ty(d - 1);
            }
            6 => {
                // fn pointer
                self.tag("fn-pointer-type");
                if self.c.chance(1, 4) {
                    self.ts(&["for", "<", "'a", ">"]);
                }
                if self.c.chance(1, 4) {
                    self.t("unsafe");
                }
                if self.c.chance(1, 4) {
                    self.t("extern");
                    if self.c.flip() {
                        let a = *self.c.pick(ABIS);
                        self.t(a);
                    }
                }
                self.t("fn");
                self.t("(");
                let k = self.c.below(4);
                for i in 0..k {
                    if i > 0 {
                        self.t(",");
                    }
                    if self.c.chance(1, 4) {
                        let n = self.ident();
                        self.t(&n);
                        self.t(":");
                    }
                    self.ty(d - 1);
                }
                self.t(")");
                if self.c.flip() {
                    self.t("->");
                    self.ty(d - 1);
                }
            }
            7 => {
                self.tag("dyn-type");
                if self.c.flip() {
                    self.t("Box");
                    self.t("<");
                    self.dyn_or_impl("dyn");
                    self.t(">");
                } else {
                    self.t("&");
                    self.t("(");
                    self.dyn_or_impl("dyn");
                    self.t(")");
                }
            }
            8 => {
                self.t("!");
            }
            9 => {
                self.t("(");
                self.ty(d - 1);
                self.t(")");
                self.tag("paren-type");
            }
            _ => {
                // qualified path
                self.ts(&["<"]);
                self.ty(d - 1);
                if self.c.chance(1, 3) {
                    self.ts(&["as", "::", "core", "::", "iter", "::", "Iterator", ">", "::", "Item"]);
                    self.tag("global-trait-path");
                } else {
                    self.ts(&["as", "Iterator", ">", "::", "Item"]);
                }
            }
        }
    }
    fn dyn_or_impl(&mut self, kw: &str) {
        self.t(kw);
        let k = 1 + self.c.below(3);
        for i in 0..k {
            if i > 0 {
                self.t("+");
            }
            if i > 0 && self.c.chance(1, 4) {
                let l = *self.c.pick(&["'a", "'static"]);
                self.t(l);
            } else {
                let tr = *self.c.pick(TRAITS);
                self.t(tr);
            }
        }
    }
    fn bounds(&mut self) {
        let k = 1 + self.c.below(3);
        for i in 0..k {
            if i > 0 {
                self.t("+");
            }
            match self.c.weighted(&[6, 1, 1, 1]) {
                0 => {
                    let tr = *self.c.pick(TRAITS);
                    self.t(tr);
                }
                1 => {
                    self.ts(&["?", "Sized"]);
                }
                2 => {
                    let l = *self.c.pick(&["'a", "'static"]);
                    self.t(l);
                }
                _ => {
                    self.ts(&["for", "<", "'x", ">", "Fn", "(", "&", "'x", "u8", ")", "->", "bool"]);
                    self.tag("hrtb");
                }
            }
        }
    }
    fn generics(&mut self, d: usize) -> bool {
        // returns whether a where clause should follow
        match self.c.weighted(&[5, 4, 1]) {
            0 => false,
            2 => {
                self.ts(&["<", ">"]);
                self.tag("empty-generics");
                false
            }
            _ => {
                self.tag("generics");
                self.t("<");
                let k = self.arity(1);
                for i in 0..k {
                    if i > 0 {
                        self.t(",");
                    }
                    match self.c.weighted(&[2, 6, 1]) {
                        0 => {
                            let l = *self.c.pick(&["'a", "'b", "'c"]);
                            self.t(l);
                            if self.c.chance(1, 4) {
                                self.ts(&[":", "'static"]);
                            }
                        }
                        1 => {
                            let n = *self.c.pick(&["T", "U", "V", "LongTypeParameterName", "F"]);
                            self.t(n);
                            if self.c.chance(1, 2) {
                                self.t(":");
                                if self.c.chance(1, 10) {
                                    self.tag("empty-bounds");
                                } else {
                                    self.bounds();
                                }
                            }
                            if self.c.chance(1, 6) {
                                self.t("=");
                                self.ty(d.min(1));
                            }
                        }
                        _ => {
                            self.ts(&["const", "N", ":", "usize"]);
                            if self.c.chance(1, 3) {
                                self.ts(&["=", "3"]);
                            }
                        }
                    }
                }
                if self.c.chance(1, 8) {
                    self.t(",");
                }
                self.t(">");
                self.c.chance(1, 3)
            }
        }
    }
    fn where_clause(&mut self, d: usize) {
        self.t("where");
        if self.c.chance(1, 10) {
            self.tag("empty-where");
            return;
        }
        self.tag("where-clause");
        let k = self.arity(1);
        for i in 0..k {
            if i > 0 {
                self.t(",");
            }
            if self.c.chance(1, 6) {
                self.ts(&["'a", ":", "'b"]);
            } else {
                if self.c.chance(1, 6) {
                    self.ts(&["for", "<", "'x", ">"]);
                }
                self.ty(d.min(1));
                self.t(":");
                self.bounds();
            }
        }
        if self.c.chance(1, 3) {
            self.t(",");
        }
    }

    // ---- patterns ---------------------------------------------------------------------------
    fn pat(&mut self, d: usize) {
        if d == 0 || self.small() {
            let n = self.ident();
            self.t(&n);
            return;
        }
        match self.c.weighted(&[6, 2, 3, 3, 2, 2, 1, 1, 1, 1]) {
            0 => {
                if self.c.chance(1, 5) {
                    self.t("ref");
                }
                if self.c.chance(1, 5) {
                    self.t("mut");
                }
                let n = self.ident();
                self.t(&n);
                if self.c.chance(1, 10) {
                    self.t("@");
                    self.pat(d - 1);
                }
            }
            1 => self.t("_"),
            2 => {
                // tuple struct
                let n = *self.c.pick(&["Some", "Ok", "Err", "Foo::Bar", "SomeVeryLongEnumName::VariantName"]);
                for (i, seg) in n.split("::").enumerate() {
                    if i > 0 {
                        self.t("::");
                    }
                    self.t(seg);
                }
                self.t("(");
                let k = 1 + self.c.below(3);
                for i in 0..k {
                    if i > 0 {
                        self.t(",");
                    }
                    self.pat(d - 1);
                }
                self.t(")");
            }
            3 => {
                self.t("(");
                let k = self.c.below(4);
                for i in 0..k {
                    if i > 0 {
                        self.t(",");
                    }
                    if self.c.chance(1, 5) {
                        self.t("_");
                    } else {
                        self.pat(d - 1);
                    }
                }
                if k == 1 {
                    self.t(",");
                }
                self.t(")");
            }
            4 => {
                // struct pattern
                let n = self.upper_ident();
                self.t(&n);
                self.t("{");
                let k = self.c.below(3);
                for i in 0..k {
                    if i > 0 {
                        self.t(",");
                    }
                    let f = self.ident();
                    self.t(&f);
                    if self.c.flip() {
                        self.t(":");
                        self.pat(d - 1);
                    }
                }
                if self.c.chance(1, 3) {
                    if k > 0 {
                        self.t(",");
                    }
                    self.t("..");
                }
                self.t("}");
            }
            5 => {
                let l = self.literal_tok();
                self.t(&l);
            }
            6 => {
                let (a, b) = *self.c.pick(&[("0", "9"), ("'a'", "'z'"), ("1", "MAX")]);
                self.t(a);
                self.t("..=");
                self.t(b);
            }
            7 => {
                self.t("[");
                let k = self.c.below(4);
                for i in 0..k {
                    if i > 0 {
                        self.t(",");
                    }
                    if self.c.chance(1, 4) {
                        self.t("..");
                    } else {
                        self.pat(d - 1);
                    }
                }
                self.t("]");
            }
            8 => {
                // (a range pattern directly under `&` is ambiguous)
                self.t("&");
                let n = self.ident();
                self.t(&n);
            }
            _ => {
                self.t("(");
                self.pat(d - 1);
                self.t("|");
                self.pat(d - 1);
                self.t(")");
            }
        }
    }

    // ---- expressions ------------------------------------------------------------------------
    fn literal_tok(&mut self) -> String {
        match self.c.weighted(&[5, 2, 3, 2, 1]) {
            0 => (*self.c.pick(INTS)).to_string(),
            1 => {
                self.tag("float-literal");
                (*self.c.pick(FLOATS)).to_string()
            }
            2 => {
                self.tag("string-literal");
                let s = *self.c.pick(STRS);
                if s.contains("\\\n") {
                    self.tag("string-continuation");
                }
                s.to_string()
            }
            3 => (*self.c.pick(CHARS)).to_string(),
            _ => (*self.c.pick(&["true", "false"])).to_string(),
        }
    }
    fn path_expr(&mut self) {
        match self.c.weighted(&[6, 2, 1, 1]) {
            0 => {
                let n = self.ident();
                self.t(&n);
            }
            1 => {
                let n = *self.c.pick(&["Foo::new", "std::mem::swap", "self::helper", "crate::util::go", "super::x", "Vec::<u8>::new", "Self::CONST"]);
                for (i, seg) in n.split("::").enumerate() {
                    if i > 0 {
                        self.t("::");
                    }
                    if let Some(inner) = seg.strip_prefix('<') {
                        self.t("<");
                        self.t(inner.trim_end_matches('>'));
                        self.t(">");
                    } else {
                        self.t(seg);
                    }
                }
            }
            2 => self.t("self"),
            _ => {
                self.ts(&["<", "T", "as", "Default", ">", "::", "default"]);
            }
        }
    }
    fn args(&mut self, d: usize) {
        let saved = std::mem::replace(&mut self.followed_by_op, false);
        self.args_inner(d);
        self.followed_by_op = saved;
    }
    fn args_inner(&mut self, d: usize) {
        self.t("(");
        let k = self.arity(0);
        for i in 0..k {
            self.slot(SlotKind::BetweenArgs);
            self.expr(d.saturating_sub(1));
            if i + 1 < k {
                self.t(",");
                self.slot(SlotKind::EndOfLine);
            } else if self.c.chance(1, 6) {
                self.t(",");
            }
        }
        self.t(")");
    }
    fn block(&mut self, d: usize) {
        let saved = std::mem::replace(&mut self.followed_by_op, false);
        self.block_inner(d);
        self.followed_by_op = saved;
    }
    fn block_inner(&mut self, d: usize) {
        self.t("{");
        let k = if d == 0 || self.small() { 0 } else { self.c.weighted(&[2, 4, 3, 2, 1]) };
        for _ in 0..k {
            self.slot(SlotKind::BetweenStmts);
            self.stmt(d.saturating_sub(1));
        }
        self.slot(SlotKind::BetweenStmts);
        if self.c.chance(2, 3) {
            self.expr(d.saturating_sub(1));
        }
        self.t("}");
    }
    /// expression that is safe in `if`/`while`/`match` head position (no struct literal)
    fn cond_expr(&mut self, d: usize) {
        match self.c.weighted(&[4, 3, 2, 1]) {
            0 => self.path_expr(),
            1 => {
                self.path_expr();
                let op = *self.c.pick(CMPOPS);
                self.t(op);
                let l = self.literal_tok();
                self.t(&l);
            }
            2 => {
                self.path_expr();
                self.t(".");
                let m = self.ident();
                self.t(&m);
                self.args(d.min(1));
            }
            _ => {
                self.t("(");
                self.expr(d.saturating_sub(1));
                self.t(")");
                self.tag("paren-cond");
            }
        }
    }
    fn primary(&mut self, d: usize) {
        if d == 0 || self.small() {
            if self.c.flip() {
                let l = self.literal_tok();
                self.t(&l);
            } else {
                self.path_expr();
            }
            return;
        }
        let pick = self.c.weighted(&[6, 6, 5, 4, 2, 2, 2, 2, 2, 2, 2, 2, 1, 1, 1, 1, 1]);
        // block-like expressions end a statement (or a match-arm body) when they come first, a
        // closure body and a jump's operand extend to the right: parenthesise them when a
        // binary operator follows
        let wrap = self.followed_by_op && matches!(pick, 5 | 6 | 7 | 11 | 16);
        let saved = self.followed_by_op;
        if wrap {
            self.t("(");
            self.followed_by_op = false;
        }
        self.primary_pick(d, pick);
        if wrap {
            self.t(")");
            self.followed_by_op = saved;
        }
    }
    fn primary_pick(&mut self, d: usize, pick: usize) {
        match pick {
            0 => {
                let l = self.literal_tok();
                self.t(&l);
            }
            1 => self.path_expr(),
            2 => {
                // call
                self.tag("call");
                self.path_expr();
                self.args(d);
            }
            3 => {
                // method chain
                self.tag("chain");
                self.path_expr();
                let k = 1 + self.c.weighted(&[3, 3, 2, 1, 1]);
                for _ in 0..k {
                    match self.c.weighted(&[6, 2, 1, 1, 1]) {
                        0 => {
                            self.t(".");
                            let m = self.ident();
                            self.t(&m);
                            if self.c.chance(1, 8) {
                                self.ts(&["::", "<"]);
                                self.ty(1);
                                self.t(">");
                                self.tag("turbofish");
                            }
                            self.args(d);
                        }
                        1 => {
                            self.t(".");
                            let m = self.ident();
                            self.t(&m);
                        }
                        2 => {
                            self.t("?");
                            self.tag("try-op");
                        }
                        3 => {
                            if self.modern() {
                                self.ts(&[".", "await"]);
                                self.tag("await");
                            } else {
                                self.t("?");
                            }
                        }
                        _ => {
                            self.t(".");
                            let i = *self.c.pick(&["0", "1", "0.0", "1.0"]);
                            self.t(i);
                            self.tag("tuple-index");
                        }
                    }
                }
            }
            4 => {
                // macro call
                self.tag("macro-call");
                let m = *self.c.pick(MACROS);
                self.t(m);
                self.t("!");
                let (o, cl) = if m == "vec" {
                    *self.c.pick(&[("[", "]"), ("(", ")"), ("[", "]")])
                } else {
                    ("(", ")")
                };
                if m == "vec" && o == "(" {
                    self.tag("vec-paren");
                }
                self.t(o);
                let k = self.arity(0);
                for i in 0..k {
                    if i > 0 {
                        self.t(",");
                    }
                    if i == 0 && (m == "println" || m == "format" || m == "write") {
                        if m == "write" {
                            self.t("f");
                            self.t(",");
                        }
                        self.t("\"{} {:?}\"");
                    } else {
                        self.expr(d - 1);
                    }
                }
                if self.c.chance(1, 6) && k > 0 {
                    self.t(",");
                }
                self.t(cl);
            }
            5 => {
                // closure
                self.tag("closure");
                if self.c.chance(1, 8) && self.modern() {
                    self.t("async");
                }
                if self.c.chance(1, 4) {
                    self.t("move");
                }
                let k = self.c.below(3);
                if k == 0 {
                    self.t("||");
                } else {
                    self.t("|");
                    for i in 0..k {
                        if i > 0 {
                            self.t(",");
                        }
                        self.pat(1);
                        if self.c.chance(1, 4) {
                            self.t(":");
                            self.ty(1);
                        }
                    }
                    self.t("|");
                }
                if self.c.chance(1, 6) {
                    self.t("->");
                    self.ty(1);
                    self.block(d - 1);
                } else if self.c.chance(1, 3) {
                    self.block(d - 1);
                    self.tag("closure-block-body");
                } else {
                    self.expr(d - 1);
                }
            }
            6 => {
                // if / else
                self.tag("if");
                self.t("if");
                if self.c.chance(1, 5) {
                    self.t("let");
                    self.pat(d - 1);
                    self.t("=");
                    self.tag("if-let");
                }
                self.cond_expr(d - 1);
                self.block(d - 1);
                let k = self.c.weighted(&[3, 3, 1]);
                if k >= 2 {
                    self.ts(&["else", "if"]);
                    self.cond_expr(d - 1);
                    self.block(d - 1);
                }
                if k >= 1 {
                    self.t("else");
                    self.block(d - 1);
                }
            }
            7 => {
                // match
                self.tag("match");
                self.t("match");
                self.cond_expr(d - 1);
                self.t("{");
                let k = self.arity(1);
                for i in 0..k {
                    self.slot(SlotKind::BetweenArms);
                    let id = self.start(NodeKind::Arm);
                    if self.c.chance(1, 8) {
                        self.t("|");
                        self.tag("leading-pipe");
                    }
                    let alts = 1 + self.c.weighted(&[6, 2, 1]);
                    for j in 0..alts {
                        if j > 0 {
                            self.t("|");
                        }
                        self.pat(d - 1);
                    }
                    if self.c.chance(1, 6) {
                        self.t("if");
                        self.cond_expr(d - 1);
                        self.tag("match-guard");
                    }
                    self.t("=>");
                    let blockbody = self.c.chance(1, 3);
                    if blockbody {
                        self.block(d - 1);
                        self.tag("arm-block-body");
                    } else {
                        self.expr(d - 1);
                    }
                    self.end(id);
                    if i + 1 < k {
                        if !blockbody || self.c.chance(1, 3) {
                            self.t(",");
                            self.slot(SlotKind::EndOfLine);
                        }
                    } else if self.c.flip() {
                        self.t(",");
                    }
                }
                self.t("}");
            }
            8 => {
                // struct literal
                self.tag("struct-literal");
                let n = self.upper_ident();
                self.t(&n);
                self.t("{");
                let k = self.arity(0);
                for i in 0..k {
                    if i > 0 {
                        self.t(",");
                    }
                    if self.c.chance(1, 8) {
                        // an attribute on a field of a struct literal
                        let a = *self.c.pick(&["cfg(test)", "allow(unused)", "cfg(feature = \"f\")"]);
                        self.ts(&["#", "["]);
                        for t in crate::lex::significant(a) {
                            let txt = t.text(a).to_string();
                            self.t(&txt);
                        }
                        self.t("]");
                        self.tag("struct-literal-field-attr");
                    }
                    let f = self.ident();
                    self.t(&f);
                    match self.c.weighted(&[5, 2, 1]) {
                        0 => {
                            self.t(":");
                            self.expr(d - 1);
                        }
                        1 => {
                            self.tag("field-shorthand");
                        }
                        _ => {
                            self.t(":");
                            self.t(&f);
                            self.tag("field-init-redundant");
                        }
                    }
                }
                if self.c.chance(1, 5) {
                    if k > 0 {
                        self.t(",");
                    }
                    self.t("..");
                    self.path_expr();
                    self.tag("struct-base");
                } else if k > 0 && self.c.chance(1, 4) {
                    self.t(",");
                }
                self.t("}");
            }
            9 => {
                // array / repeat
                self.tag("array");
                self.t("[");
                if self.c.chance(1, 5) {
                    self.expr(d - 1);
                    self.t(";");
                    self.t("16");
                } else {
                    let k = self.arity(0);
                    for i in 0..k {
                        if i > 0 {
                            self.t(",");
                        }
                        self.expr(d - 1);
                    }
                    if k > 0 && self.c.chance(1, 5) {
                        self.t(",");
                    }
                }
                self.t("]");
            }
            10 => {
                // tuple / paren
                self.t("(");
                let k = self.c.below(4);
                for i in 0..k {
                    if i > 0 {
                        self.t(",");
                    }
                    self.expr(d - 1);
                }
                if k == 1 {
                    if self.c.flip() {
                        self.t(",");
                    } else {
                        self.tag("paren-expr");
                    }
                }
                self.t(")");
            }
            11 => {
                // blocks
                let mut kw = *self.c.pick(&["", "unsafe", "async", "async move", "const", "'label:", "loop"]);
                if kw.starts_with("async") && !self.modern() {
                    kw = "unsafe";
                }
                if kw == "'label:" {
                    self.ts(&["'label", ":"]);
                } else {
                    for w in kw.split(' ').filter(|w| !w.is_empty()) {
                        self.t(w);
                    }
                }
                self.tag("block-expr");
                self.block(d - 1);
            }
            12 => {
                // nested parens
                self.ts(&["(", "("]);
                self.expr(d - 1);
                self.ts(&[")", ")"]);
                self.tag("nested-parens");
            }
            13 => {
                // index
                self.path_expr();
                self.t("[");
                self.expr(d - 1);
                self.t("]");
            }
            14 => {
                // try! macro (`try` is a keyword from 2018 on)
                if self.only_2015 {
                    self.ts(&["try", "!", "("]);
                    self.expr(d - 1);
                    self.t(")");
                    self.tag("try-macro");
                } else {
                    self.path_expr();
                    self.t("?");
                    self.tag("try-op");
                }
            }
            15 => {
                // range
                self.tag("range");
                let l = self.literal_tok();
                match self.c.below(4) {
                    0 => {
                        self.t("(");
                        self.t("0");
                        self.t("..");
                        self.t(&l);
                        self.t(")");
                    }
                    1 => {
                        self.t("(");
                        self.t("..=");
                        self.t("9");
                        self.t(")");
                    }
                    2 => {
                        self.t("(");
                        self.path_expr();
                        self.t("..");
                        self.t(")");
                    }
                    _ => {
                        self.t("(");
                        self.t("1");
                        self.t("..=");
                        self.path_expr();
                        self.t(")");
                    }
                }
            }
            _ => {
                // jumps
                match self.c.below(4) {
                    0 => {
                        self.t("return");
                        if self.c.flip() {
                            self.primary(d - 1);
                        }
                    }
                    1 => {
                        self.t("break");
                    }
                    2 => self.t("continue"),
                    _ => {
                        self.ts(&["break", "'outer"]);
                    }
                }
                self.tag("jump");
            }
        }
    }
    fn unary(&mut self, d: usize) {
        match self.c.weighted(&[12, 1, 1, 1, 1, 1, 1]) {
            0 => self.primary(d),
            1 => {
                self.t("!");
                self.primary(d);
            }
            2 => {
                self.t("-");
                self.primary(d);
            }
            3 => {
                self.t("*");
                self.primary(d);
            }
            4 => {
                self.t("&");
                if self.c.flip() {
                    self.t("mut");
                }
                self.primary(d);
            }
            5 => {
                self.t("(");
                if self.c.flip() {
                    self.path_expr();
                } else {
                    let l = self.literal_tok();
                    self.t(&l);
                }
                self.t("as");
                self.ty(1);
                self.t(")");
                self.tag("cast");
            }
            _ => {
                self.t("&");
                self.t("raw");
                let m = *self.c.pick(&["const", "mut"]);
                self.t(m);
                self.path_expr();
                self.tag("raw-ref");
            }
        }
    }
    fn expr(&mut self, d: usize) {
        let k = if d == 0 || self.small() { 0 } else { self.c.weighted(&[8, 3, 2, 1, 1]) };
        // attributes on the left operand of a binary expression are ambiguous: mark only
        // operator-free expressions as attribute-accepting nodes
        let id = if k == 0 && d > 0 && self.c.chance(1, 8) { Some(self.start(NodeKind::Expr)) } else { None };
        let saved = self.followed_by_op;
        self.followed_by_op = k > 0;
        if id.is_some() {
            self.primary(d);
        } else {
            self.unary(d);
        }
        if k > 0 {
            self.tag("binary");
        }
        let mut used_cmp = false;
        for i in 0..k {
            let op = if !used_cmp && self.c.chance(1, 5) {
                used_cmp = true;
                *self.c.pick(CMPOPS)
            } else {
                *self.c.pick(BINOPS)
            };
            self.t(op);
            self.followed_by_op = i + 1 < k;
            self.unary(d.saturating_sub(1));
        }
        self.followed_by_op = saved;
        if let Some(id) = id {
            self.end(id);
        }
    }

    // ---- statements -------------------------------------------------------------------------
    fn stmt(&mut self, d: usize) {
        match self.c.weighted(&[6, 6, 2, 1, 1, 1]) {
            0 => {
                let id = self.start(NodeKind::LetStmt);
                self.t("let");
                self.pat(d.min(2));
                if self.c.chance(1, 3) {
                    self.t(":");
                    self.ty(d.min(2));
                }
                if self.c.chance(5, 6) {
                    self.t("=");
                    if self.c.chance(1, 10) {
                        // let-else: the initialiser may not end in `}` nor be a lazy boolean
                        self.t("(");
                        self.expr(d);
                        self.t(")");
                        self.t("else");
                        self.t("{");
                        self.t("return");
                        self.t("}");
                        self.tag("let-else");
                    } else {
                        self.expr(d);
                    }
                }
                self.t(";");
                self.end(id);
                self.slot(SlotKind::EndOfLine);
            }
            1 => {
                let id = self.start(NodeKind::ExprStmt);
                // expression statements: calls, chains, assignments, control flow
                match self.c.weighted(&[4, 3, 2]) {
                    0 => {
                        self.path_expr();
                        let op = *self.c.pick(ASSIGNOPS);
                        self.t(op);
                        self.expr(d);
                        self.t(";");
                    }
                    1 => {
                        self.path_expr();
                        self.t(".");
                        let m = self.ident();
                        self.t(&m);
                        self.args(d);
                        self.t(";");
                    }
                    _ => {
                        // control-flow statement
                        match self.c.below(4) {
                            0 => {
                                self.t("for");
                                // (a range pattern here trips a known rustfmt defect: `for 0..=9 inn.a(`)
                                if self.c.flip() {
                                    let n = self.ident();
                                    self.t(&n);
                                } else {
                                    self.t("(");
                                    let a = self.ident();
                                    self.t(&a);
                                    self.t(",");
                                    let b = self.ident();
                                    self.t(&b);
                                    self.t(")");
                                }
                                self.t("in");
                                self.cond_expr(d);
                                self.block(d);
                                self.tag("for");
                            }
                            1 => {
                                self.t("while");
                                self.cond_expr(d);
                                self.block(d);
                                self.tag("while");
                            }
                            2 => {
                                self.ts(&["'outer", ":", "loop"]);
                                self.block(d);
                                self.tag("labelled-loop");
                            }
                            _ => {
                                self.t("if");
                                self.cond_expr(d);
                                self.block(d);
                                if self.c.flip() {
                                    self.t("else");
                                    self.block(d);
                                }
                            }
                        }
                    }
                }
                self.end(id);
                self.slot(SlotKind::EndOfLine);
            }
            2 => {
                let id = self.start(NodeKind::MacStmt);
                let m = *self.c.pick(MACROS);
                self.t(m);
                self.t("!");
                self.t("(");
                self.t("\"{}\"");
                let k = self.c.below(3);
                for _ in 0..k {
                    self.t(",");
                    self.expr(d.min(1));
                }
                self.t(")");
                self.t(";");
                self.end(id);
                self.tag("macro-stmt");
            }
            3 if self.no_empty_stmt => {
                let id = self.start(NodeKind::LetStmt);
                self.ts(&["let", "filler", "=", "0", ";"]);
                self.end(id);
            }
            3 => {
                self.t(";");
                self.tag("empty-stmt");
            }
            4 => {
                // nested item
                let id = self.start(NodeKind::NestedItem);
                self.item_inner(d.min(1), false);
                self.end(id);
                self.tag("nested-item");
            }
            _ => {
                let id = self.start(NodeKind::ExprStmt);
                self.t("return");
                if self.c.flip() {
                    self.expr(d);
                }
                self.t(";");
                self.end(id);
            }
        }
    }

    // ---- items ------------------------------------------------------------------------------
    fn vis(&mut self) {
        match self.c.weighted(&[8, 5, 2, 1, 1, 1]) {
            0 => {}
            1 => self.t("pub"),
            2 => {
                self.ts(&["pub", "(", "crate", ")"]);
            }
            3 => self.ts(&["pub", "(", "super", ")"]),
            4 => {
                self.ts(&["pub", "(", "in", "crate", "::", "a", ")"]);
                self.tag("pub-in-path");
            }
            _ => {
                self.ts(&["pub", "(", "in", "super", ")"]);
                self.tag("pub-in-shorthandable");
            }
        }
    }
    fn attrs(&mut self) {
        let k = self.c.weighted(&[8, 3, 1]);
        for _ in 0..k {
            match self.c.weighted(&[3, 3, 2, 2, 1, 1]) {
                0 => {
                    self.ts(&["#", "[", "derive", "("]);
                    let n = self.c.below(4);
                    for i in 0..n {
                        if i > 0 {
                            self.t(",");
                        }
                        let tr = *self.c.pick(&["Clone", "Debug", "PartialEq", "Eq", "Hash", "serde::Serialize", "Default"]);
                        for (j, seg) in tr.split("::").enumerate() {
                            if j > 0 {
                                self.t("::");
                            }
                            self.t(seg);
                        }
                    }
                    self.ts(&[")", "]"]);
                    self.tag("derive");
                }
                1 => {
                    let a = *self.c.pick(&["inline", "test", "must_use", "non_exhaustive", "cold"]);
                    self.ts(&["#", "[", a, "]"]);
                }
                2 => {
                    self.ts(&["#", "[", "cfg", "(", "feature", "=", "\"some-feature\"", ")", "]"]);
                }
                3 => {
                    self.ts(&["#", "[", "allow", "(", "dead_code", ",", "unused_variables", ")", "]"]);
                }
                4 => {
                    self.ts(&["#", "[", "doc", "=", "\"documented via attribute\"", "]"]);
                    self.tag("doc-attr");
                }
                _ => {
                    self.ts(&["#", "[", "cfg_attr", "(", "test", ",", "derive", "(", "Debug", ")", ")", "]"]);
                }
            }
        }
        if self.c.chance(1, 6) {
            let n = 1 + self.c.below(3);
            for i in 0..n {
                let s = *self.c.pick(&["/// A documented item.", "/// Second line of documentation with `code`.", "///   indented doc text", "///", "/// Ünïcode docs 日本"]);
                let _ = i;
                self.t(s);
            }
            self.tag("doc-comment");
        }
    }
    fn fn_sig(&mut self, d: usize, allow_self: bool, simple_params: bool) {
        // qualifiers
        if self.c.chance(1, 8) {
            self.t("const");
        }
        if self.c.chance(1, 8) && self.modern() {
            self.t("async");
            self.tag("async-fn");
        }
        if self.c.chance(1, 8) {
            self.t("unsafe");
            self.tag("unsafe-fn");
        }
        if self.c.chance(1, 10) {
            self.t("extern");
            if self.c.chance(2, 3) {
                let a = *self.c.pick(ABIS);
                self.t(a);
                if a != "\"C\"" {
                    self.tag("non-c-abi");
                }
            } else {
                self.tag("implicit-abi");
            }
        }
        self.t("fn");
        let n = self.ident();
        self.t(&n);
        let wh = self.generics(d);
        self.t("(");
        let k = self.arity(0);
        let mut first = true;
        if allow_self && self.c.chance(2, 3) {
            let s = *self.c.pick(&["self", "&self", "&mut self", "mut self", "self: Box<Self>", "&'a self"]);
            self.slot(SlotKind::BetweenParams);
            for w in tokenize_simple(s) {
                self.t(&w);
            }
            first = false;
        }
        for _ in 0..k {
            if !first {
                self.t(",");
                self.slot(SlotKind::EndOfLine);
            }
            first = false;
            self.slot(SlotKind::BetweenParams);
            if self.c.chance(1, 10) {
                self.ts(&["#", "[", "cfg", "(", "test", ")", "]"]);
            }
            if simple_params {
                let n = self.ident();
                self.t(&n);
            } else {
                self.pat(1);
            }
            self.t(":");
            self.ty(d.min(2));
        }
        if !first && self.c.chance(1, 5) {
            self.t(",");
        }
        self.t(")");
        match self.c.weighted(&[4, 5, 1]) {
            0 => {}
            1 => {
                self.t("->");
                if self.c.chance(1, 6) {
                    self.dyn_or_impl("impl");
                    self.tag("impl-trait-return");
                } else {
                    self.ty(d.min(2));
                }
            }
            _ => {
                self.ts(&["->", "(", ")"]);
                self.tag("unit-return");
            }
        }
        if wh {
            self.where_clause(d);
        }
    }
    fn item_inner(&mut self, d: usize, top: bool) {
        self.attrs();
        let mut pick = self.c.weighted(&[10, 5, 4, 3, 4, 2, 2, 2, 2, 2, 2, 1, 1, 1]);
        if self.no_imports && (pick == 7 || pick == 8) {
            pick = 5;
        }
        match pick {
            0 => {
                self.tag("fn");
                self.vis();
                self.fn_sig(d, false, false);
                self.in_fn += 1;
                self.block(d);
                self.in_fn -= 1;
            }
            1 => {
                self.tag("struct");
                self.vis();
                self.t("struct");
                let n = self.upper_ident();
                self.t(&n);
                let wh = self.generics(d);
                match self.c.weighted(&[6, 3, 1]) {
                    0 => {
                        if wh {
                            self.where_clause(d);
                        }
                        self.t("{");
                        let k = self.arity(0);
                        for i in 0..k {
                            self.slot(SlotKind::BetweenFields);
                            let id = self.start(NodeKind::Field);
                            self.attrs_light();
                            self.vis();
                            let f = self.ident();
                            self.t(&f);
                            self.t(":");
                            self.ty(d.min(2));
                            self.end(id);
                            if i + 1 < k || self.c.flip() {
                                self.t(",");
                                self.slot(SlotKind::EndOfLine);
                            }
                        }
                        self.slot(SlotKind::BetweenFields);
                        self.t("}");
                    }
                    1 => {
                        self.t("(");
                        let k = self.arity(0);
                        for i in 0..k {
                            if i > 0 {
                                self.t(",");
                            }
                            self.vis();
                            self.ty(d.min(2));
                        }
                        self.t(")");
                        if wh {
                            self.where_clause(d);
                        }
                        self.t(";");
                        self.tag("tuple-struct");
                    }
                    _ => {
                        self.t(";");
                    }
                }
            }
            2 => {
                self.tag("enum");
                self.vis();
                self.t("enum");
                let n = self.upper_ident();
                self.t(&n);
                let wh = self.generics(d);
                if wh {
                    self.where_clause(d);
                }
                self.t("{");
                let k = self.arity(0);
                for i in 0..k {
                    self.slot(SlotKind::BetweenVariants);
                    let id = self.start(NodeKind::Variant);
                    self.attrs_light();
                    let v = self.upper_ident();
                    self.t(&v);
                    match self.c.weighted(&[4, 2, 2, 1]) {
                        0 => {}
                        1 => {
                            self.t("(");
                            let m = 1 + self.c.below(3);
                            for j in 0..m {
                                if j > 0 {
                                    self.t(",");
                                }
                                self.ty(d.min(1));
                            }
                            self.t(")");
                        }
                        2 => {
                            self.t("{");
                            let m = 1 + self.c.below(3);
                            for j in 0..m {
                                if j > 0 {
                                    self.t(",");
                                }
                                let f = self.ident();
                                self.t(&f);
                                self.t(":");
                                self.ty(d.min(1));
                            }
                            self.t("}");
                        }
                        _ => {
                            self.t("=");
                            let l = *self.c.pick(&["1", "0x10", "1 << 3", "-1"]);
                            for w in l.split(' ') {
                                self.t(w);
                            }
                            self.tag("discriminant");
                        }
                    }
                    self.end(id);
                    if i + 1 < k || self.c.flip() {
                        self.t(",");
                        self.slot(SlotKind::EndOfLine);
                    }
                }
                self.slot(SlotKind::BetweenVariants);
                self.t("}");
            }
            3 => {
                self.tag("trait");
                self.vis();
                if self.c.chance(1, 8) {
                    self.t("unsafe");
                }
                self.t("trait");
                let n = self.upper_ident();
                self.t(&n);
                let wh = self.generics(d);
                if self.c.chance(1, 3) {
                    self.t(":");
                    if self.c.chance(1, 8) {
                        self.tag("empty-supertraits");
                    } else {
                        self.bounds();
                    }
                }
                if wh {
                    self.where_clause(d);
                }
                self.t("{");
                let k = self.arity(0);
                for _ in 0..k {
                    self.slot(SlotKind::BetweenItems);
                    let id = self.start(NodeKind::AssocItem);
                    self.attrs_light();
                    match self.c.weighted(&[5, 2, 2]) {
                        0 => {
                            let bodiless = self.c.flip();
                            // trait methods: patterns other than plain identifiers are a parse error (anonymous
                            // parameter compatibility)
                            self.fn_sig(d.min(2), true, true);
                            if bodiless {
                                self.t(";");
                            } else {
                                self.in_fn += 1;
                                self.block(d.min(2));
                                self.in_fn -= 1;
                            }
                        }
                        1 => {
                            self.t("type");
                            let n = self.upper_ident();
                            self.t(&n);
                            if self.c.flip() {
                                self.t(":");
                                self.bounds();
                            }
                            self.t(";");
                        }
                        _ => {
                            self.t("const");
                            self.t("LIMIT");
                            self.t(":");
                            self.ty(1);
                            if self.c.flip() {
                                self.t("=");
                                self.expr(1);
                            }
                            self.t(";");
                        }
                    }
                    self.end(id);
                }
                self.slot(SlotKind::BetweenItems);
                self.t("}");
            }
            4 => {
                self.tag("impl");
                if self.c.chance(1, 10) {
                    self.t("unsafe");
                }
                self.t("impl");
                let wh = self.generics(d);
                if self.c.chance(1, 2) {
                    if self.c.chance(1, 10) {
                        self.t("!");
                        self.tag("negative-impl");
                    }
                    let tr = *self.c.pick(TRAITS);
                    self.t(tr);
                    self.t("for");
                }
                self.ty(d.min(2));
                if wh {
                    self.where_clause(d);
                }
                self.t("{");
                let k = self.arity(0);
                for _ in 0..k {
                    self.slot(SlotKind::BetweenItems);
                    let id = self.start(NodeKind::AssocItem);
                    self.attrs_light();
                    match self.c.weighted(&[6, 1, 1]) {
                        0 => {
                            self.vis();
                            if self.c.chance(1, 12) {
                                self.t("default");
                            }
                            self.fn_sig(d.min(2), true, false);
                            self.in_fn += 1;
                            self.block(d.min(2));
                            self.in_fn -= 1;
                        }
                        1 => {
                            self.t("type");
                            let n = self.upper_ident();
                            self.t(&n);
                            self.t("=");
                            self.ty(1);
                            self.t(";");
                        }
                        _ => {
                            self.vis();
                            self.ts(&["const", "LIMIT", ":", "usize", "=", "10", ";"]);
                        }
                    }
                    self.end(id);
                }
                self.slot(SlotKind::BetweenItems);
                self.t("}");
            }
            5 => {
                self.tag("type-alias");
                self.vis();
                self.t("type");
                let n = self.upper_ident();
                self.t(&n);
                let _ = self.generics(d);
                self.t("=");
                self.ty(d.min(3));
                self.t(";");
            }
            6 => {
                self.tag("const-static");
                self.vis();
                if self.c.flip() {
                    self.t("const");
                } else {
                    self.t("static");
                    if self.c.chance(1, 3) {
                        self.t("mut");
                    }
                }
                let n = *self.c.pick(&["LIMIT", "A_RATHER_LONG_CONSTANT_NAME_FOR_WIDTH", "TABLE"]);
                self.t(n);
                self.t(":");
                self.ty(d.min(2));
                self.t("=");
                self.expr(d.min(3));
                self.t(";");
            }
            7 => {
                self.tag("use");
                self.vis();
                self.t("use");
                self.use_tree(2);
                self.t(";");
            }
            8 => {
                self.tag("extern-crate");
                self.ts(&["extern", "crate"]);
                let n = *self.c.pick(&["alpha", "beta", "serde_json", "zeta"]);
                self.t(n);
                if self.c.chance(1, 4) {
                    self.ts(&["as", "renamed"]);
                }
                self.t(";");
            }
            9 => {
                self.tag("mod-inline");
                self.vis();
                self.t("mod");
                let n = *self.c.pick(&["inner", "tests", "a_module_with_long_name", "m"]);
                self.t(n);
                self.t("{");
                let k = if d == 0 { 0 } else { self.c.below(3) };
                for _ in 0..k {
                    self.slot(SlotKind::BetweenItems);
                    let id = self.start(NodeKind::NestedItem);
                    self.item_inner(d.saturating_sub(1), false);
                    self.end(id);
                }
                self.slot(SlotKind::BetweenItems);
                self.t("}");
            }
            10 => {
                self.tag("extern-block");
                if self.c.chance(1, 4) {
                    self.t("unsafe");
                }
                self.t("extern");
                if self.c.chance(2, 3) {
                    let a = *self.c.pick(ABIS);
                    self.t(a);
                    if a != "\"C\"" {
                        self.tag("non-c-abi");
                    }
                } else {
                    self.tag("implicit-abi");
                }
                self.t("{");
                let k = self.arity(0);
                for _ in 0..k {
                    self.slot(SlotKind::BetweenItems);
                    let id = self.start(NodeKind::ForeignItem);
                    self.vis();
                    if self.c.chance(2, 3) {
                        self.t("fn");
                        let n = self.ident();
                        self.t(&n);
                        self.t("(");
                        let m = self.c.below(3);
                        for j in 0..m {
                            if j > 0 {
                                self.t(",");
                            }
                            let p = self.ident();
                            self.t(&p);
                            self.t(":");
                            self.ty(1);
                        }
                        if self.c.chance(1, 5) {
                            if m > 0 {
                                self.t(",");
                                self.t("...");
                                self.tag("variadic");
                            }
                        }
                        self.t(")");
                        if self.c.flip() {
                            self.t("->");
                            self.ty(1);
                        }
                        self.t(";");
                    } else {
                        self.t("static");
                        if self.c.flip() {
                            self.t("mut");
                        }
                        self.ts(&["ERRNO", ":", "i32", ";"]);
                    }
                    self.end(id);
                }
                self.t("}");
            }
            11 => {
                self.tag("macro-rules");
                self.ts(&["macro_rules", "!", "my_mac", "{"]);
                let k = 1 + self.c.below(2);
                for i in 0..k {
                    self.t("(");
                    if i == 0 {
                        self.ts(&["$x", ":", "expr", ",", "$", "(", "$rest", ":", "tt", ")", "*"]);
                    }
                    self.t(")");
                    self.t("=>");
                    self.t("{");
                    if self.c.flip() {
                        self.ts(&["let", "v", "=", "$x", "+", "1", ";", "v"]);
                    } else {
                        self.ts(&["$x", ".", "call", "(", "$", "(", "$rest", ")", "*", ")"]);
                    }
                    self.t("}");
                    if i + 1 < k || self.c.flip() {
                        self.t(";");
                    }
                }
                self.t("}");
            }
            12 => {
                self.tag("item-macro");
                let (o, cl, semi) = *self.c.pick(&[("(", ")", true), ("[", "]", true), ("{", "}", false)]);
                self.ts(&["some_item_macro", "!", o]);
                self.ts(&["struct", "Gen", ";", "impl", "Gen", "{", "}"]);
                self.t(cl);
                if semi {
                    self.t(";");
                }
            }
            _ => {
                self.tag("union");
                self.vis();
                self.ts(&["union", "Bits", "{"]);
                self.ts(&["i", ":", "u32", ",", "f", ":", "f32"]);
                if self.c.flip() {
                    self.t(",");
                }
                self.t("}");
            }
        }
        let _ = top;
    }
    fn attrs_light(&mut self) {
        if self.c.chance(1, 8) {
            self.ts(&["#", "[", "cfg", "(", "test", ")", "]"]);
        }
        if self.c.chance(1, 12) {
            self.t("/// documented member");
        }
    }
    fn use_tree(&mut self, d: usize) {
        let root = *self.c.pick(&["std", "crate", "self", "super", "alpha", "core", "zeta_crate"]);
        self.t(root);
        let k = 1 + self.c.below(3);
        for _ in 0..k {
            self.t("::");
            let seg = *self.c.pick(&["io", "fmt", "collections", "mem", "inner_module", "Write", "HashMap", "a", "B"]);
            self.t(seg);
        }
        match self.c.weighted(&[5, 2, 3, 1]) {
            0 => {}
            1 => {
                self.ts(&["::", "*"]);
            }
            2 if d > 0 => {
                self.ts(&["::", "{"]);
                let n = self.arity(0);
                for i in 0..n {
                    if i > 0 {
                        self.t(",");
                    }
                    match self.c.weighted(&[5, 1, 1, 1]) {
                        0 => {
                            let seg = *self.c.pick(&["Read", "Write", "self", "BufRead", "z", "A", "b_2", "b_10", "B1"]);
                            self.t(seg);
                        }
                        1 => {
                            self.ts(&["Seek", "as", "_"]);
                        }
                        2 => {
                            self.ts(&["nested", "::", "{", "x", ",", "y", "}"]);
                        }
                        _ => self.t("*"),
                    }
                }
                if n > 0 && self.c.chance(1, 5) {
                    self.t(",");
                }
                self.t("}");
            }
            _ => {
                self.ts(&["as", "Renamed"]);
            }
        }
    }
}

/// Splits a small fixed snippet into tokens (only used for the `self` parameter spellings).
fn tokenize_simple(s: &str) -> Vec<String> {
    crate::lex::significant(s).iter().map(|t| t.text(s).to_owned()).collect()
}

pub struct ProgSpace {
    pub max_depth: usize,
    pub max_arity: usize,
    pub max_items: usize,
    pub budget: isize,
    /// do not generate redundant `;` statements
    pub no_empty_stmt: bool,
    /// do not generate `use` / `extern crate` items
    pub no_imports: bool,
}

impl Default for ProgSpace {
    fn default() -> Self {
        ProgSpace {
            max_depth: 4,
            max_arity: 5,
            max_items: 4,
            budget: 350,
            no_empty_stmt: false,
            no_imports: false,
        }
    }
}

pub fn gen_prog(c: &mut Choices<'_>, space: &ProgSpace) -> Prog {
    let only_2015 = c.chance(1, 10);
    let mut g = G {
        only_2015,
        followed_by_op: false,
        no_empty_stmt: space.no_empty_stmt,
        no_imports: space.no_imports,
        c,
        p: vec![],
        tags: vec![],
        next_node: 0,
        min_edition: "2015",
        max_depth: space.max_depth,
        max_arity: space.max_arity,
        in_fn: 0,
        budget: space.budget,
    };
    if g.c.chance(1, 10) {
        g.ts(&["#", "!", "[", "allow", "(", "unused", ")", "]"]);
    }
    let n = 1 + g.c.below(space.max_items.max(1));
    for _ in 0..n {
        g.slot(SlotKind::BetweenItems);
        let id = g.start(NodeKind::Item);
        let d = g.max_depth;
        g.item_inner(d, true);
        g.end(id);
    }
    g.slot(SlotKind::BetweenItems);
    let min_edition = g.min_edition;
    let mut tags = g.tags;
    if only_2015 {
        tags.push("only-2015");
    }
    Prog {
        n_nodes: g.next_node,
        pieces: g.p,
        min_edition,
        only_2015,
        tags,
    }
}

// ---------------------------------------------------------------------------------------------
// rendering

#[derive(Debug, Clone)]
pub struct CommentInfo {
    pub payload: String,
    pub text: String,
    pub block: bool,
    pub slot: &'static str,
    /// byte offset in the rendered text
    pub at: usize,
}

#[derive(Debug, Clone)]
pub struct NodeInfo {
    pub id: usize,
    pub kind: NodeKind,
    pub in_fn: bool,
    pub lo: usize,
    pub hi: usize,
}

pub struct RenderOpts {
    /// 0 = one space between tokens and a newline after `;`, `{`, `}`; 1..3 = increasingly wild
    pub wild: usize,
    /// probability (out of 16) that a comment slot receives a comment; 0 = no comments
    pub comment_p: usize,
    /// probability (out of 64) of a comment at an arbitrary token boundary inside a
    /// function-body statement
    pub in_stmt_p: usize,
    /// node that must be rendered with a deliberately wild layout (C04), if any
    pub wild_node: Option<usize>,
    /// text inserted immediately before the first token of `wild_node` (e.g. a skip attribute)
    pub node_prefix: String,
    /// block comments never span lines
    pub single_line_blocks: bool,
}

impl Default for RenderOpts {
    fn default() -> Self {
        RenderOpts {
            wild: 0,
            comment_p: 0,
            in_stmt_p: 0,
            wild_node: None,
            node_prefix: String::new(),
            single_line_blocks: false,
        }
    }
}

pub struct Rendered {
    pub text: String,
    pub comments: Vec<CommentInfo>,
    pub nodes: Vec<NodeInfo>,
}

fn is_word_char(c: char) -> bool {
    c.is_alphanumeric() || c == '_' || !c.is_ascii()
}

/// Whether two adjacent tokens may be written without whitespace between them.
fn may_glue(prev: &str, next: &str) -> bool {
    if prev.starts_with("//") || next.starts_with("//") {
        return false;
    }
    let a = prev.chars().last().unwrap_or(' ');
    let b = next.chars().next().unwrap_or(' ');
    let delim = |c: char| matches!(c, '(' | ')' | '[' | ']' | '{' | '}' | ',' | ';');
    if !(delim(a) || delim(b)) {
        return false;
    }
    a != '/' && b != '/'
}

const WS_WILD: &[&str] = &[" ", "\n", "  ", "\n\n", "\t", "\n      ", " \n", "\n\n\n", "    "];

pub fn render(prog: &Prog, c: &mut Choices<'_>, ro: &RenderOpts) -> Rendered {
    let mut text = String::new();
    let mut comments: Vec<CommentInfo> = vec![];
    let mut open: Vec<(usize, NodeKind, bool, usize)> = vec![];
    let mut nodes: Vec<NodeInfo> = vec![];
    let mut pending_start: Vec<(usize, NodeKind, bool)> = vec![];
    let mut prev_tok: Option<String> = None;
    let mut force_newline = false;
    let mut stmt_depth = 0usize; // inside a fn-body statement
    let mut wild_depth = 0usize; // inside the wild node
    let mut nested_items = 0usize; // inside a nested item (no in-statement comments there)
    let mut nest = 0usize; // delimiter nesting
    let mut macro_open: Vec<usize> = vec![]; // nesting levels at which a macro call's delimiters opened
    let mut next_comment = 0usize;
    let mut indent = 0usize;

    let single_line_blocks = ro.single_line_blocks;
    let push_comment = |text: &mut String,
                            comments: &mut Vec<CommentInfo>,
                            c: &mut Choices<'_>,
                            next_comment: &mut usize,
                            slot: &'static str,
                            force_newline: &mut bool| {
        let payload = format!("c{}", *next_comment);
        *next_comment += 1;
        let block = c.chance(1, 3);
        let words = *c.pick(&[
            "",
            " note",
            " a comment with several words in it",
            " TODO: something fairly long that may need wrapping when the width is small enough",
            " ünïcode ✓",
        ]);
        let body = if block {
            if c.chance(1, 6) && !single_line_blocks {
                format!("/* {payload}{words}\n   second line of {payload} */")
            } else {
                format!("/* {payload}{words} */")
            }
        } else {
            format!("// {payload}{words}")
        };
        if !text.is_empty() && !text.ends_with([' ', '\n', '\t']) {
            text.push(' ');
        }
        let at = text.len();
        text.push_str(&body);
        comments.push(CommentInfo {
            payload,
            text: body,
            block,
            slot,
            at,
        });
        if !block {
            *force_newline = true;
        }
    };

    for (pi, piece) in prog.pieces.iter().enumerate() {
        match piece {
            Piece::NodeStart(k, id, in_fn) => {
                pending_start.push((*id, *k, *in_fn));
            }
            Piece::NodeEnd(id) => {
                if let Some(pos) = open.iter().rposition(|(i, ..)| i == id) {
                    let (i, k, in_fn, lo) = open.remove(pos);
                    if k.is_stmt() && in_fn {
                        stmt_depth = stmt_depth.saturating_sub(1);
                    }
                    if k == NodeKind::NestedItem {
                        nested_items = nested_items.saturating_sub(1);
                    }
                    if Some(i) == ro.wild_node {
                        wild_depth = wild_depth.saturating_sub(1);
                    }
                    nodes.push(NodeInfo {
                        id: i,
                        kind: k,
                        in_fn,
                        lo,
                        hi: text.len(),
                    });
                } else {
                    // node without tokens
                    pending_start.retain(|(i, ..)| i != id);
                }
            }
            Piece::Slot(k) => {
                if ro.comment_p > 0 && wild_depth == 0 && c.chance(ro.comment_p, 16) {
                    if *k == SlotKind::EndOfLine {
                        // same line as the preceding separator
                        if force_newline {
                            continue;
                        }
                    } else if !text.is_empty() && !force_newline {
                        // own line or same line, both occur
                        if c.flip() {
                            text.push('\n');
                        }
                    }
                    if force_newline {
                        text.push('\n');
                        force_newline = false;
                    }
                    push_comment(&mut text, &mut comments, c, &mut next_comment, k.name(), &mut force_newline);
                    if *k == SlotKind::EndOfLine {
                        // "at the end of such a line": nothing follows the comment on its line
                        force_newline = true;
                    }
                }
            }
            Piece::Tok(s) => {
                // whitespace before the token
                if let Some(prev) = &prev_tok {
                    let wild = if wild_depth > 0 { 3 } else { ro.wild };
                    let mut ws: String = match wild {
                        0 => {
                            let p = prev.as_str();
                            if p == "{" {
                                indent += 1;
                            }
                            if s == "}" {
                                indent = indent.saturating_sub(1);
                            }
                            let word_end = p.chars().last().map(is_word_char).unwrap_or(false);
                            if matches!(s.as_str(), "," | ";" | ")" | "]") {
                                String::new()
                            } else if matches!(p, ";" | "{" | "}") || p.starts_with("//") {
                                format!("\n{}", "    ".repeat(indent))
                            } else if matches!(p, "(" | "[") {
                                String::new()
                            } else if s == "(" && word_end && !matches!(p, "if" | "in" | "match" | "while" | "return" | "as" | "mut" | "const" | "else" | "for" | "let") {
                                String::new()
                            } else {
                                " ".to_string()
                            }
                        }
                        1 => {
                            if c.chance(1, 6) {
                                (*c.pick(WS_WILD)).to_string()
                            } else if may_glue(prev, s) && c.flip() {
                                String::new()
                            } else {
                                " ".to_string()
                            }
                        }
                        2 => {
                            if c.chance(1, 2) {
                                (*c.pick(WS_WILD)).to_string()
                            } else if may_glue(prev, s) && c.flip() {
                                String::new()
                            } else {
                                " ".to_string()
                            }
                        }
                        _ => {
                            if may_glue(prev, s) && c.chance(1, 4) {
                                String::new()
                            } else {
                                (*c.pick(WS_WILD)).to_string()
                            }
                        }
                    };
                    // a separator on a line of its own followed by a comment trips a known rustfmt
                    // defect (the comma is emitted twice): keep `,` and `;` on the line they end
                    if matches!(s.as_str(), "," | ";") && ws.contains('\n') && !prev.starts_with("//") && !force_newline {
                        ws = " ".to_string();
                    }
                    if prev.starts_with("//") && !ws.starts_with('\n') {
                        ws.insert(0, '\n');
                    }
                    if force_newline {
                        if !ws.starts_with('\n') {
                            ws.insert(0, '\n');
                        }
                        force_newline = false;
                    } else if text.ends_with("*/") && ws.is_empty() {
                        ws.push(' ');
                    }
                    text.push_str(&ws);
                    // a comment at an arbitrary token boundary inside a fn-body statement
                    if ro.in_stmt_p > 0
                        && stmt_depth > 0
                        && nested_items == 0
                        && wild_depth == 0
                        && pending_start.is_empty()
                        // comments inside macro calls and around the `!` are lost or swallow code
                        // (known findings): not generated
                        && macro_open.is_empty()
                        && s != "!"
                        && prev != "!"
                        && c.chance(ro.in_stmt_p, 64)
                    {
                        push_comment(&mut text, &mut comments, c, &mut next_comment, "in-stmt", &mut force_newline);
                        if force_newline {
                            text.push('\n');
                            force_newline = false;
                        } else {
                            text.push(' ');
                        }
                    }
                } else if force_newline {
                    text.push('\n');
                    force_newline = false;
                } else if text.ends_with("*/") {
                    text.push(' ');
                }
                // open pending nodes at this token
                for (id, k, in_fn) in pending_start.drain(..) {
                    if Some(id) == ro.wild_node {
                        text.push_str(&ro.node_prefix);
                        wild_depth += 1;
                    }
                    if k.is_stmt() && in_fn {
                        stmt_depth += 1;
                    }
                    if k == NodeKind::NestedItem {
                        nested_items += 1;
                    }
                    open.push((id, k, in_fn, text.len()));
                }
                // for the wild node the prefix must come before `lo`; fix up lo of that node
                if let Some(w) = ro.wild_node {
                    if let Some(e) = open.iter_mut().find(|(i, ..)| *i == w) {
                        if e.3 == text.len() && !ro.node_prefix.is_empty() {
                            e.3 = text.len() - ro.node_prefix.len();
                        }
                    }
                }
                match s.as_str() {
                    "(" | "[" | "{" => {
                        if prev_tok.as_deref() == Some("!") {
                            macro_open.push(nest);
                        }
                        nest += 1;
                    }
                    ")" | "]" | "}" => {
                        nest = nest.saturating_sub(1);
                        if macro_open.last() == Some(&nest) {
                            macro_open.pop();
                        }
                    }
                    _ => {}
                }
                text.push_str(s);
                prev_tok = Some(s.clone());
                let _ = pi;
            }
        }
    }
    if !text.ends_with('\n') {
        text.push('\n');
    }
    Rendered {
        text,
        comments,
        nodes,
    }
}
