//! Source selection shared by the API family: corpus chunks or generated programs, re-laid out.

use serde::{Deserialize, Serialize};

use crate::choices::Choices;
use crate::engine::GenCtx;
use crate::gen::layout::{relayout, Newlines};

#[derive(Debug, Clone, Serialize, Deserialize)]
pub struct Src {
    pub text: String,
    /// `corpus:<path>#<first chunk>+<n>` or `prog`
    pub origin: String,
    /// minimum edition under which the text parses
    pub edition: String,
    pub layout: usize,
}

pub struct SrcSpace {
    /// weight of generated programs vs corpus (out of 10)
    pub prog_weight: usize,
    pub max_chunks: usize,
    pub newlines: bool,
}

impl Default for SrcSpace {
    fn default() -> Self {
        SrcSpace {
            prog_weight: 3,
            max_chunks: 3,
            newlines: false,
        }
    }
}

pub fn pick_corpus(c: &mut Choices<'_>, g: &GenCtx, max_chunks: usize) -> Option<Src> {
    let corpus = &g.corpus;
    if corpus.chunk_index.is_empty() {
        return None;
    }
    let k = c.below(corpus.chunk_index.len());
    let (fi, ci) = corpus.chunk_index[k];
    let (fi, ci) = (fi as usize, ci as usize);
    let f = &corpus.files[fi];
    let n = 1 + c.below(max_chunks.max(1)).min(f.chunks.len() - ci - 1);
    let lo = f.chunks[ci].0;
    let hi = f.chunks[ci + n - 1].1;
    Some(Src {
        text: f.text[lo..hi].trim_start_matches(['\n', '\r']).to_owned(),
        origin: format!("corpus:{}#{}+{}", f.path, ci, n),
        edition: f.edition.clone(),
        layout: 0,
    })
}

pub fn gen_source(c: &mut Choices<'_>, g: &GenCtx, space: &SrcSpace) -> Src {
    let use_prog = c.below(10) < space.prog_weight || g.corpus.chunk_index.is_empty();
    let mut src = if use_prog {
        let p = crate::gen::prog::gen_prog(c, &crate::gen::prog::ProgSpace::default());
        let wild = c.weighted(&[3, 3, 2, 1]);
        let r = crate::gen::prog::render(
            &p,
            c,
            &crate::gen::prog::RenderOpts {
                wild,
                ..Default::default()
            },
        );
        Src {
            text: r.text,
            origin: if p.only_2015 { "prog:only2015".into() } else { "prog".into() },
            edition: p.min_edition.into(),
            layout: wild,
        }
    } else {
        pick_corpus(c, g, space.max_chunks).unwrap()
    };
    let intensity = c.weighted(&[3, 3, 3, 2]);
    let nl = if space.newlines {
        [Newlines::Lf, Newlines::Crlf, Newlines::Mixed][c.weighted(&[2, 1, 1])]
    } else {
        Newlines::Lf
    };
    if intensity > 0 || nl != Newlines::Lf {
        src.text = relayout(&src.text, c, intensity, nl);
    }
    src.layout = intensity;
    src
}
