//! The corpus grid: a fixed, finite, pseudo-randomly pre-sampled set of
//! (corpus chunk x layout variant x configuration) cells. A cell is a pure function of its
//! index (names and contents of the corpus files, never of the run's seed); `VERIF_SEED`
//! only selects *which* cells a tier visits. Because the whole grid can be (and was) swept on
//! the unchanged tree, a quick run is silent there by construction, while different seeds still
//! visit different cells.

use crate::choices::Choices;
use crate::corpus::Corpus;
use crate::engine::fnv64;
use crate::fmt::Opts;
use crate::gen::conf::{gen_conf, ConfSpace};
use crate::gen::layout::{relayout, Newlines};
use crate::gen::source::Src;

pub const LAYOUTS: usize = 3;
pub const CONFS: usize = 40;

pub fn splitmix(state: &mut u64) -> u64 {
    *state = state.wrapping_add(0x9e3779b97f4a7c15);
    let mut z = *state;
    z = (z ^ (z >> 30)).wrapping_mul(0xbf58476d1ce4e5b9);
    z = (z ^ (z >> 27)).wrapping_mul(0x94d049bb133111eb);
    z ^ (z >> 31)
}

pub fn byte_stream(key: &str, n: usize) -> Vec<u8> {
    let mut st = fnv64(key.as_bytes());
    let mut v = Vec::with_capacity(n + 8);
    while v.len() < n {
        v.extend_from_slice(&splitmix(&mut st).to_le_bytes());
    }
    v.truncate(n);
    v
}

pub fn grid_size(corpus: &Corpus) -> usize {
    corpus.chunk_index.len() * LAYOUTS * CONFS
}

pub struct Cell {
    pub src: Src,
    pub opts: Opts,
    pub cell: String,
}

/// Builds cell `idx`. `newlines`: whether CRLF/mixed terminators are part of the layout axis.
pub fn grid_cell(corpus: &Corpus, idx: usize, space: &ConfSpace, newlines: bool) -> Cell {
    let k = idx / (LAYOUTS * CONFS);
    let v = (idx / CONFS) % LAYOUTS;
    let j = idx % CONFS;
    let (fi, ci) = corpus.chunk_index[k];
    let (fi, ci) = (fi as usize, ci as usize);
    let f = &corpus.files[fi];
    let key = format!("{}#{}#{}#{}", f.path, ci, v, j);
    let bytes = byte_stream(&key, 1024);
    let mut c = Choices::new(&bytes);
    // one chunk, or (every 8th configuration) a run of up to three chunks
    let n = if j % 8 == 7 {
        (1 + c.below(3)).min(f.chunks.len() - ci)
    } else {
        1
    };
    let lo = f.chunks[ci].0;
    let hi = f.chunks[ci + n - 1].1;
    let mut text = f.text[lo..hi].trim_start_matches(['\n', '\r']).to_owned();
    let nl = if newlines {
        [Newlines::Lf, Newlines::Lf, Newlines::Crlf, Newlines::Mixed][c.below(4)]
    } else {
        Newlines::Lf
    };
    let intensity = [0, 2, 3][v];
    if intensity > 0 || nl != Newlines::Lf {
        text = relayout(&text, &mut c, intensity, nl);
    }
    let min_ed: &'static str = crate::props::common::min_edition_static(&f.edition);
    let sp = ConfSpace {
        exclude: space.exclude,
        exclude_values: space.exclude_values,
        allow_2027: space.allow_2027,
        min_edition: min_ed,
        max_extra: space.max_extra,
        whitespace_axes: space.whitespace_axes,
    };
    let opts = if j == 0 {
        vec![
            ("style_edition".to_string(), ["2015", "2024"][k % 2].to_string()),
            ("edition".to_string(), f.edition.clone()),
        ]
    } else {
        let mut o = gen_conf(&mut c, &sp);
        // most cells keep the edition the fixture was written for
        if j % 4 != 3 {
            for p in o.iter_mut() {
                if p.0 == "edition" {
                    p.1 = f.edition.clone();
                }
            }
        }
        o
    };
    Cell {
        src: Src {
            text,
            origin: format!("corpus:{}#{}+{}", f.path, ci, n),
            edition: f.edition.clone(),
            layout: intensity,
        },
        opts,
        cell: format!("{}#{}/L{}/C{}", f.path, ci, v, j),
    }
}

/// The cells a run visits: `n` distinct pseudo-random indices chosen by the seed
/// (all of them if `n >= size`).
pub fn select_cells(seed: i64, tag: &str, n: usize, size: usize) -> Vec<usize> {
    if n >= size {
        return (0..size).collect();
    }
    let mut st = fnv64(format!("{seed}/{tag}").as_bytes());
    let mut seen = std::collections::HashSet::with_capacity(n * 2);
    let mut v = Vec::with_capacity(n);
    while v.len() < n {
        let i = (splitmix(&mut st) % size as u64) as usize;
        if seen.insert(i) {
            v.push(i);
        }
    }
    v
}
