//! O-PARSE: an independent parse with `rustc_parse` (silent), used by oracles. Nothing here
//! calls into rustfmt.

use std::panic::{self, AssertUnwindSafe};
use std::sync::Arc;

use rustc_ast::ast;
use rustc_ast::mut_visit::{self, MutVisitor};
use rustc_ast::ptr::P;
use rustc_ast::visit::{self, Visitor};
use rustc_data_structures::sync::IntoDynSyncSend;
use rustc_errors::emitter::Emitter;
use rustc_errors::registry::Registry;
use rustc_errors::translation::Translate;
use rustc_errors::{DiagCtxt, DiagInner};
use rustc_session::parse::ParseSess;
use rustc_span::edition::Edition;
use rustc_span::source_map::{FilePathMapping, SourceMap};
use rustc_span::{FileName, Span};

struct NullEmitter {
    bundle: IntoDynSyncSend<rustc_errors::LazyFallbackBundle>,
}

/// Messages of the diagnostics of the most recent `with_crate` call on this thread (dev aid).
pub static LAST_DIAGS: std::sync::Mutex<Vec<String>> = std::sync::Mutex::new(Vec::new());

impl Translate for NullEmitter {
    fn fluent_bundle(&self) -> Option<&rustc_errors::FluentBundle> {
        None
    }
    fn fallback_fluent_bundle(&self) -> &rustc_errors::FluentBundle {
        &self.bundle
    }
}

impl Emitter for NullEmitter {
    fn source_map(&self) -> Option<&SourceMap> {
        None
    }
    fn emit_diagnostic(&mut self, diag: DiagInner, _registry: &Registry) {
        if let Ok(mut v) = LAST_DIAGS.lock() {
            if v.len() < 8 {
                v.push(format!("{:?} @ {:?}", diag.messages.first().map(|m| &m.0), diag.span.primary_span()));
            }
        }
    }
}

pub fn edition_of(s: &str) -> Edition {
    match s {
        "2018" => Edition::Edition2018,
        "2021" => Edition::Edition2021,
        "2024" => Edition::Edition2024,
        _ => Edition::Edition2015,
    }
}

/// Parses `src` as a crate under `edition` and hands the result to `f`.
/// `f` receives `None` if the text does not parse without errors.
pub fn with_crate<R>(
    src: &str,
    edition: &str,
    f: impl FnOnce(Option<(&mut ast::Crate, &SourceMap)>) -> R,
) -> R {
    let src = src.to_owned();
    if let Ok(mut v) = LAST_DIAGS.lock() {
        v.clear();
    }
    rustc_span::create_session_globals_then(edition_of(edition), None, || {
        let source_map = Arc::new(SourceMap::new(FilePathMapping::empty()));
        let bundle = rustc_errors::fallback_fluent_bundle(
            rustc_driver::DEFAULT_LOCALE_RESOURCES.to_vec(),
            false,
        );
        let dcx = DiagCtxt::new(Box::new(NullEmitter {
            bundle: IntoDynSyncSend(bundle),
        }));
        let psess = ParseSess::with_dcx(dcx, source_map.clone());
        let parsed = panic::catch_unwind(AssertUnwindSafe(|| {
            let parser = rustc_parse::new_parser_from_source_str(
                &psess,
                FileName::Custom("oracle".to_owned()),
                src,
            );
            let mut parser = match parser {
                Ok(p) => p,
                Err(diags) => {
                    for d in diags {
                        d.emit();
                    }
                    return None;
                }
            };
            match parser.parse_crate_mod() {
                Ok(k) => Some(k),
                Err(d) => {
                    d.emit();
                    None
                }
            }
        }));
        let _ = crate::fmt::take_panics();
        let mut krate = match parsed {
            Ok(Some(k)) if psess.dcx().has_errors().is_none() => Some(k),
            _ => None,
        };
        // Diagnostics that were stashed must not trip the "unemitted diagnostics" check on drop.
        psess.dcx().reset_err_count();
        let r = f(krate.as_mut().map(|k| (k, &*source_map)));
        r
    })
}

pub fn parses(src: &str, edition: &str) -> bool {
    with_crate(src, edition, |k| k.is_some())
}

#[derive(Debug, Clone)]
pub struct ItemSpan {
    /// Byte range of the item including its outer attributes.
    pub lo: usize,
    pub hi: usize,
    /// Start of the item proper (after its outer attributes and doc comments).
    pub decl_lo: usize,
    pub kind: &'static str,
}

fn span_range(sm: &SourceMap, sp: Span) -> (usize, usize) {
    let f = sm.lookup_source_file(sp.lo());
    let base = f.start_pos.0 as usize;
    (sp.lo().0 as usize - base, sp.hi().0 as usize - base)
}

fn item_kind_name(k: &ast::ItemKind) -> &'static str {
    use ast::ItemKind::*;
    match k {
        ExternCrate(..) => "extern_crate",
        Use(..) => "use",
        Static(..) => "static",
        Const(..) => "const",
        Fn(..) => "fn",
        Mod(..) => "mod",
        ForeignMod(..) => "foreign_mod",
        GlobalAsm(..) => "global_asm",
        TyAlias(..) => "type",
        Enum(..) => "enum",
        Struct(..) => "struct",
        Union(..) => "union",
        Trait(..) => "trait",
        TraitAlias(..) => "trait_alias",
        Impl(..) => "impl",
        MacCall(..) => "mac_call",
        MacroDef(..) => "macro_def",
        _ => "other",
    }
}

fn with_attrs(sp: Span, attrs: &[ast::Attribute]) -> Span {
    let mut s = sp;
    for a in attrs {
        if a.span.lo() < s.lo() && !a.span.from_expansion() {
            s = s.with_lo(a.span.lo());
        }
    }
    s
}

/// Top-level items of a crate (byte ranges incl. attributes), and the end of the inner
/// attributes of the crate. `None` if the text does not parse.
pub fn top_items(src: &str, edition: &str) -> Option<(Vec<ItemSpan>, usize)> {
    with_crate(src, edition, |k| {
        let (k, sm) = k?;
        let mut v = vec![];
        for it in &k.items {
            let sp = with_attrs(it.span, &it.attrs);
            let (lo, hi) = span_range(sm, sp);
            v.push(ItemSpan {
                lo,
                hi,
                decl_lo: span_range(sm, it.span).0.max(lo),
                kind: item_kind_name(&it.kind),
            });
        }
        let mut inner_end = 0;
        for a in &k.attrs {
            let (_, hi) = span_range(sm, a.span);
            inner_end = inner_end.max(hi);
        }
        Some((v, inner_end))
    })
}

#[derive(Debug, Clone)]
pub struct FnBody {
    /// byte range of the whole item
    pub lo: usize,
    pub hi: usize,
    /// byte ranges of the statements of the body block
    pub stmts: Vec<(usize, usize)>,
}

/// Top-level functions with the byte ranges of their body statements.
pub fn top_fn_bodies(src: &str, edition: &str) -> Option<Vec<FnBody>> {
    with_crate(src, edition, |k| {
        let (k, sm) = k?;
        let mut v = vec![];
        for it in &k.items {
            if let ast::ItemKind::Fn(f) = &it.kind {
                if let Some(b) = &f.body {
                    let sp = with_attrs(it.span, &it.attrs);
                    let (lo, hi) = span_range(sm, sp);
                    let stmts = b
                        .stmts
                        .iter()
                        .map(|s| {
                            let sp = match &s.kind {
                                ast::StmtKind::Let(l) => with_attrs(s.span, &l.attrs),
                                ast::StmtKind::Item(i) => with_attrs(s.span, &i.attrs),
                                ast::StmtKind::Expr(e) | ast::StmtKind::Semi(e) => {
                                    with_attrs(s.span, &e.attrs)
                                }
                                _ => s.span,
                            };
                            span_range(sm, sp)
                        })
                        .collect();
                    v.push(FnBody { lo, hi, stmts });
                }
            }
        }
        Some(v)
    })
}

// ---------------------------------------------------------------------------------------------
// skip-attribute location (for C07/C08 exemptions): byte ranges of nodes carrying rustfmt::skip

fn attr_is_skip(a: &ast::Attribute) -> bool {
    if a.is_doc_comment() {
        return false;
    }
    let s = rustc_ast_pretty::pprust::attribute_to_string(a);
    let compact: String = s.chars().filter(|c| !c.is_whitespace()).collect();
    compact.contains("rustfmt::skip]")
        || compact.contains("rustfmt_skip]")
        || compact.contains("rustfmt::skip)]")
        || compact.contains("rustfmt_skip)]")
}

struct SkipFinder<'a> {
    sm: &'a SourceMap,
    out: Vec<(usize, usize)>,
}

impl<'a> SkipFinder<'a> {
    fn check(&mut self, attrs: &[ast::Attribute], sp: Span) {
        if attrs.iter().any(attr_is_skip) {
            let (lo, hi) = span_range(self.sm, with_attrs(sp, attrs));
            self.out.push((lo, hi));
        }
    }
}

impl<'a, 'ast> Visitor<'ast> for SkipFinder<'a> {
    fn visit_item(&mut self, i: &'ast ast::Item) {
        self.check(&i.attrs, i.span);
        visit::walk_item(self, i);
    }
    fn visit_assoc_item(&mut self, i: &'ast ast::AssocItem, ctxt: visit::AssocCtxt) {
        self.check(&i.attrs, i.span);
        visit::walk_assoc_item(self, i, ctxt);
    }
    fn visit_foreign_item(&mut self, i: &'ast ast::ForeignItem) {
        self.check(&i.attrs, i.span);
        visit::walk_item(self, i);
    }
    fn visit_stmt(&mut self, s: &'ast ast::Stmt) {
        match &s.kind {
            ast::StmtKind::Let(l) => self.check(&l.attrs, s.span),
            ast::StmtKind::MacCall(m) => self.check(&m.attrs, s.span),
            _ => {}
        }
        visit::walk_stmt(self, s);
    }
    fn visit_expr(&mut self, e: &'ast ast::Expr) {
        self.check(&e.attrs, e.span);
        visit::walk_expr(self, e);
    }
    fn visit_arm(&mut self, a: &'ast ast::Arm) {
        self.check(&a.attrs, a.span);
        visit::walk_arm(self, a);
    }
    fn visit_field_def(&mut self, f: &'ast ast::FieldDef) {
        self.check(&f.attrs, f.span);
        visit::walk_field_def(self, f);
    }
    fn visit_variant(&mut self, v: &'ast ast::Variant) {
        self.check(&v.attrs, v.span);
        visit::walk_variant(self, v);
    }
    fn visit_expr_field(&mut self, f: &'ast ast::ExprField) {
        self.check(&f.attrs, f.span);
        visit::walk_expr_field(self, f);
    }
    fn visit_param(&mut self, p: &'ast ast::Param) {
        self.check(&p.attrs, p.span);
        visit::walk_param(self, p);
    }
}

/// Byte ranges of all nodes that carry a skip attribute; whole file if the crate has an inner one.
pub fn skip_ranges(src: &str, edition: &str) -> Option<Vec<(usize, usize)>> {
    let len = src.len();
    with_crate(src, edition, |k| {
        let (k, sm) = k?;
        let mut f = SkipFinder { sm, out: vec![] };
        if k.attrs.iter().any(attr_is_skip) {
            f.out.push((0, len));
        }
        visit::walk_crate(&mut f, k);
        Some(f.out)
    })
}

/// A node that carries a skip attribute.
#[derive(Debug, Clone)]
pub struct SkipNode {
    pub lo: usize,
    pub hi: usize,
    /// end of the last outer attribute (== lo if there is none)
    pub attrs_hi: usize,
    /// end of the node the attribute belongs to syntactically: for an expression statement the
    /// end of the expression (before the `;`), else `hi`
    pub inner_hi: usize,
    /// item | assoc | foreign | stmt | expr | arm | field | variant | expr_field | param
    pub kind: &'static str,
    /// inside an expression-level block (closure body, block expression, arm body, ...)
    pub nested: bool,
}

struct SkipNodeFinder<'a> {
    sm: &'a SourceMap,
    out: Vec<SkipNode>,
    /// depth of expression-level blocks and of impl/trait bodies (both are laid out in a buffer
    /// of their own)
    expr_depth: usize,
}

impl<'a> SkipNodeFinder<'a> {
    fn check(&mut self, attrs: &[ast::Attribute], sp: Span, kind: &'static str) {
        if attrs.iter().any(attr_is_skip) {
            let (lo, hi) = span_range(self.sm, with_attrs(sp, attrs));
            let mut attrs_hi = lo;
            for a in attrs {
                if matches!(a.style, ast::AttrStyle::Outer) && !a.span.from_expansion() {
                    let (_, h) = span_range(self.sm, a.span);
                    if h <= hi {
                        attrs_hi = attrs_hi.max(h);
                    }
                }
            }
            self.out.push(SkipNode { lo, hi, attrs_hi, inner_hi: hi, kind, nested: self.expr_depth > 0 });
        }
    }
}

impl<'a, 'ast> Visitor<'ast> for SkipNodeFinder<'a> {
    fn visit_item(&mut self, i: &'ast ast::Item) {
        self.check(&i.attrs, i.span, "item");
        visit::walk_item(self, i);
    }
    fn visit_assoc_item(&mut self, i: &'ast ast::AssocItem, ctxt: visit::AssocCtxt) {
        self.expr_depth += 1;
        self.check(&i.attrs, i.span, "assoc");
        visit::walk_assoc_item(self, i, ctxt);
        self.expr_depth -= 1;
    }
    fn visit_foreign_item(&mut self, i: &'ast ast::ForeignItem) {
        self.check(&i.attrs, i.span, "foreign");
        visit::walk_item(self, i);
    }
    fn visit_stmt(&mut self, s: &'ast ast::Stmt) {
        match &s.kind {
            ast::StmtKind::Let(l) => self.check(&l.attrs, s.span, "stmt"),
            ast::StmtKind::MacCall(m) => self.check(&m.attrs, s.span, "stmt"),
            ast::StmtKind::Expr(e) | ast::StmtKind::Semi(e) => {
                // an expression statement: the attribute sits on the expression, the statement
                // visitor copies the whole statement
                let before = self.out.len();
                self.check(&e.attrs, s.span, "stmt");
                if self.out.len() > before {
                    let (_, ehi) = span_range(self.sm, e.span);
                    self.out[before].inner_hi = ehi;
                }
                self.expr_depth += 1;
                visit::walk_expr(self, e);
                self.expr_depth -= 1;
                return;
            }
            _ => {}
        }
        visit::walk_stmt(self, s);
    }
    fn visit_expr(&mut self, e: &'ast ast::Expr) {
        self.check(&e.attrs, e.span, "expr");
        self.expr_depth += 1;
        visit::walk_expr(self, e);
        self.expr_depth -= 1;
    }
    fn visit_arm(&mut self, a: &'ast ast::Arm) {
        self.check(&a.attrs, a.span, "arm");
        visit::walk_arm(self, a);
    }
    fn visit_field_def(&mut self, f: &'ast ast::FieldDef) {
        self.check(&f.attrs, f.span, "field");
        visit::walk_field_def(self, f);
    }
    fn visit_variant(&mut self, v: &'ast ast::Variant) {
        self.check(&v.attrs, v.span, "variant");
        visit::walk_variant(self, v);
    }
    fn visit_expr_field(&mut self, f: &'ast ast::ExprField) {
        self.check(&f.attrs, f.span, "expr_field");
        visit::walk_expr_field(self, f);
    }
    fn visit_param(&mut self, p: &'ast ast::Param) {
        self.check(&p.attrs, p.span, "param");
        visit::walk_param(self, p);
    }
}

/// All nodes that carry a skip attribute, in source order, with their kind; `whole_file` if the
/// crate has an inner skip attribute.
pub fn skip_nodes(src: &str, edition: &str) -> Option<(Vec<SkipNode>, bool)> {
    with_crate(src, edition, |k| {
        let (k, sm) = k?;
        let mut f = SkipNodeFinder { sm, out: vec![], expr_depth: 0 };
        let whole = k.attrs.iter().any(attr_is_skip);
        visit::walk_crate(&mut f, k);
        f.out.sort_by_key(|n| (n.lo, std::cmp::Reverse(n.hi)));
        Some((f.out, whole))
    })
}

struct MacFinder<'a> {
    sm: &'a SourceMap,
    out: Vec<(usize, usize)>,
}

impl<'a, 'ast> Visitor<'ast> for MacFinder<'a> {
    fn visit_mac_call(&mut self, m: &'ast ast::MacCall) {
        self.out.push(span_range(self.sm, m.span()));
    }
    fn visit_item(&mut self, i: &'ast ast::Item) {
        if matches!(i.kind, ast::ItemKind::MacroDef(..)) {
            self.out.push(span_range(self.sm, i.span));
        }
        visit::walk_item(self, i);
    }
}

/// Byte ranges of all macro invocations and macro definitions.
pub fn mac_ranges(src: &str, edition: &str) -> Option<Vec<(usize, usize)>> {
    with_crate(src, edition, |k| {
        let (k, sm) = k?;
        let mut f = MacFinder { sm, out: vec![] };
        visit::walk_crate(&mut f, k);
        Some(f.out)
    })
}

// ---------------------------------------------------------------------------------------------
// canonical pretty-print with parentheses and single-expression blocks normalised (O-AST)

struct Canon;

impl Canon {
    fn unwrap_single_expr_block(e: &mut P<ast::Expr>) {
        loop {
            let inner = match &e.kind {
                ast::ExprKind::Block(b, None)
                    if matches!(b.rules, ast::BlockCheckMode::Default) && e.attrs.is_empty() =>
                {
                    // redundant `;` statements do not count
                    let real: Vec<&ast::Stmt> = b
                        .stmts
                        .iter()
                        .filter(|s| !matches!(s.kind, ast::StmtKind::Empty))
                        .collect();
                    if real.len() != 1 {
                        return;
                    }
                    match &real[0].kind {
                        ast::StmtKind::Expr(inner) => inner.clone(),
                        // `{ m!(..) }`: a macro call without semicolon is the block's value
                        ast::StmtKind::MacCall(mc) if !matches!(mc.style, ast::MacStmtStyle::Semicolon) => {
                            P(ast::Expr {
                                id: ast::DUMMY_NODE_ID,
                                kind: ast::ExprKind::MacCall(mc.mac.clone()),
                                span: real[0].span,
                                attrs: mc.attrs.clone(),
                                tokens: None,
                            })
                        }
                        // `{ return x; }` is `return x` (trailing_semicolon)
                        ast::StmtKind::Semi(inner)
                            if matches!(
                                inner.kind,
                                ast::ExprKind::Ret(..)
                                    | ast::ExprKind::Break(..)
                                    | ast::ExprKind::Continue(..)
                                    | ast::ExprKind::Loop(..)
                                    | ast::ExprKind::While(..)
                                    | ast::ExprKind::ForLoop { .. }
                            ) =>
                        {
                            inner.clone()
                        }
                        _ => return,
                    }
                }
                _ => return,
            };
            *e = inner;
        }
    }
}

impl MutVisitor for Canon {
    fn visit_expr(&mut self, e: &mut P<ast::Expr>) {
        loop {
            let inner = match &e.kind {
                ast::ExprKind::Paren(inner) if e.attrs.is_empty() => inner.clone(),
                _ => break,
            };
            *e = inner;
        }
        match &mut e.kind {
            ast::ExprKind::Closure(c) => Canon::unwrap_single_expr_block(&mut c.body),
            ast::ExprKind::Match(_, arms, _) => {
                for a in arms.iter_mut() {
                    if let Some(b) = &mut a.body {
                        Canon::unwrap_single_expr_block(b);
                    }
                }
            }
            _ => {}
        }
        mut_visit::walk_expr(self, e);
    }
    fn visit_ty(&mut self, t: &mut P<ast::Ty>) {
        loop {
            let inner = match &t.kind {
                ast::TyKind::Paren(inner) => inner.clone(),
                _ => break,
            };
            *t = inner;
        }
        mut_visit::walk_ty(self, t);
    }
    fn visit_pat(&mut self, p: &mut P<ast::Pat>) {
        loop {
            let inner = match &p.kind {
                ast::PatKind::Paren(inner) => inner.clone(),
                _ => break,
            };
            *p = inner;
        }
        mut_visit::walk_pat(self, p);
    }
    fn visit_block(&mut self, b: &mut P<ast::Block>) {
        b.stmts
            .retain(|s| !matches!(s.kind, ast::StmtKind::Empty));
        mut_visit::walk_block(self, b);
    }
}

/// Pretty-prints the crate after removing parentheses nodes, redundant semicolons and
/// single-expression blocks in arm/closure bodies. `pprust` re-inserts the parentheses that
/// precedence requires, so two texts that differ only in redundant parentheses print alike,
/// while a change of tree shape (dropped required parentheses) prints differently.
pub fn canon_pretty(src: &str, edition: &str) -> Option<String> {
    with_crate(src, edition, |k| {
        let (k, _sm) = k?;
        let r = panic::catch_unwind(AssertUnwindSafe(|| {
            Canon.visit_crate(k);
            let mut s = String::new();
            for a in &k.attrs {
                s.push_str(&rustc_ast_pretty::pprust::attribute_to_string(a));
                s.push('\n');
            }
            for it in &k.items {
                s.push_str(&rustc_ast_pretty::pprust::item_to_string(it));
                s.push('\n');
            }
            s
        }));
        let _ = crate::fmt::take_panics();
        r.ok()
    })
}

// ---------------------------------------------------------------------------------------------
// gaps between consecutive list elements (C08)

#[derive(Debug, Clone, Copy, PartialEq, Eq)]
pub enum GapKind {
    Items,
    Stmts,
    Fields,
    Variants,
    Arms,
    Args,
}

#[derive(Debug, Clone, Copy)]
pub struct Gap {
    pub kind: GapKind,
    pub lo: usize,
    pub hi: usize,
}

struct GapFinder<'a> {
    sm: &'a SourceMap,
    out: Vec<Gap>,
}

impl<'a> GapFinder<'a> {
    fn seq(&mut self, kind: GapKind, spans: Vec<Span>) {
        for w in spans.windows(2) {
            if w[0].from_expansion() || w[1].from_expansion() {
                continue;
            }
            let (_, a_hi) = span_range(self.sm, w[0]);
            let (b_lo, _) = span_range(self.sm, w[1]);
            if a_hi <= b_lo {
                self.out.push(Gap {
                    kind,
                    lo: a_hi,
                    hi: b_lo,
                });
            }
        }
    }
}

impl<'a, 'ast> Visitor<'ast> for GapFinder<'a> {
    fn visit_item(&mut self, i: &'ast ast::Item) {
        match &i.kind {
            ast::ItemKind::Mod(_, _, ast::ModKind::Loaded(items, ..)) => {
                let v = items.iter().map(|it| with_attrs(it.span, &it.attrs)).collect();
                self.seq(GapKind::Items, v);
            }
            ast::ItemKind::Impl(imp) => {
                let v = imp.items.iter().map(|it| with_attrs(it.span, &it.attrs)).collect();
                self.seq(GapKind::Items, v);
            }
            ast::ItemKind::Trait(t) => {
                let v = t.items.iter().map(|it| with_attrs(it.span, &it.attrs)).collect();
                self.seq(GapKind::Items, v);
            }
            ast::ItemKind::ForeignMod(f) => {
                let v = f.items.iter().map(|it| with_attrs(it.span, &it.attrs)).collect();
                self.seq(GapKind::Items, v);
            }
            ast::ItemKind::Enum(_, def, _) => {
                let v = def.variants.iter().map(|x| with_attrs(x.span, &x.attrs)).collect();
                self.seq(GapKind::Variants, v);
            }
            _ => {}
        }
        visit::walk_item(self, i);
    }
    fn visit_variant_data(&mut self, vd: &'ast ast::VariantData) {
        if let ast::VariantData::Struct { fields, .. } = vd {
            let v = fields.iter().map(|f| with_attrs(f.span, &f.attrs)).collect();
            self.seq(GapKind::Fields, v);
        }
        visit::walk_struct_def(self, vd);
    }
    fn visit_block(&mut self, b: &'ast ast::Block) {
        let v = b
            .stmts
            .iter()
            .map(|s| match &s.kind {
                ast::StmtKind::Let(l) => with_attrs(s.span, &l.attrs),
                ast::StmtKind::Item(i) => with_attrs(s.span, &i.attrs),
                ast::StmtKind::Expr(e) | ast::StmtKind::Semi(e) => with_attrs(s.span, &e.attrs),
                ast::StmtKind::MacCall(m) => with_attrs(s.span, &m.attrs),
                _ => s.span,
            })
            .collect();
        self.seq(GapKind::Stmts, v);
        visit::walk_block(self, b);
    }
    fn visit_expr(&mut self, e: &'ast ast::Expr) {
        match &e.kind {
            ast::ExprKind::Match(_, arms, _) => {
                let v = arms.iter().map(|a| with_attrs(a.span, &a.attrs)).collect();
                self.seq(GapKind::Arms, v);
            }
            ast::ExprKind::Call(_, args) => {
                let v = args.iter().map(|a| with_attrs(a.span, &a.attrs)).collect();
                self.seq(GapKind::Args, v);
            }
            ast::ExprKind::MethodCall(mc) => {
                let v = mc.args.iter().map(|a| with_attrs(a.span, &a.attrs)).collect();
                self.seq(GapKind::Args, v);
            }
            _ => {}
        }
        visit::walk_expr(self, e);
    }
}

/// Byte ranges between consecutive items / statements / fields / variants / arms / call
/// arguments of `src`. `None` if the text does not parse.
pub fn list_gaps(src: &str, edition: &str) -> Option<Vec<Gap>> {
    with_crate(src, edition, |k| {
        let (k, sm) = k?;
        let mut f = GapFinder { sm, out: vec![] };
        let v = k.items.iter().map(|it| with_attrs(it.span, &it.attrs)).collect();
        f.seq(GapKind::Items, v);
        visit::walk_crate(&mut f, k);
        Some(f.out)
    })
}

// ---------------------------------------------------------------------------------------------
// function bodies (comment-position domain of C02/C03)

struct FnBodies<'a> {
    sm: &'a SourceMap,
    out: Vec<(usize, usize)>,
}

impl<'a, 'ast> Visitor<'ast> for FnBodies<'a> {
    fn visit_fn(&mut self, fk: visit::FnKind<'ast>, sp: Span, id: ast::NodeId) {
        if let visit::FnKind::Fn(_, _, f) = &fk {
            if let Some(b) = &f.body {
                if !b.span.from_expansion() {
                    self.out.push(span_range(self.sm, b.span));
                }
            }
        }
        visit::walk_fn(self, fk);
        let _ = (sp, id);
    }
}

/// Byte ranges of the body blocks of all functions and methods. `None` if `src` does not parse.
pub fn fn_body_ranges(src: &str, edition: &str) -> Option<Vec<(usize, usize)>> {
    with_crate(src, edition, |k| {
        let (k, sm) = k?;
        let mut f = FnBodies { sm, out: vec![] };
        visit::walk_crate(&mut f, k);
        Some(f.out)
    })
}
