//! The engine shared by all properties: sharded proptest runners that drive worker
//! subprocesses, watchdog, shrinking, replay files, known-finding matching and evidence.

use std::collections::{BTreeMap, HashSet};
use std::io::{BufRead, BufReader, Write};
use std::path::{Path, PathBuf};
use std::process::{Child, ChildStdin, Command, Stdio};
use std::sync::atomic::{AtomicBool, AtomicUsize, Ordering};
use std::sync::mpsc::{self, Receiver};
use std::sync::{Arc, Mutex};
use std::time::{Duration, Instant};

use proptest::test_runner::{Config as PtConfig, RngAlgorithm, TestCaseError, TestRng, TestRunner};
use serde::{Deserialize, Serialize};
use serde_json::{json, Value};

use crate::choices::Choices;

#[derive(Debug, Clone, Copy, PartialEq, Eq)]
pub enum Tier {
    Quick,
    Thorough,
}

impl Tier {
    pub fn name(self) -> &'static str {
        match self {
            Tier::Quick => "quick",
            Tier::Thorough => "thorough",
        }
    }
}

#[derive(Debug, Clone, Copy, PartialEq, Eq, Serialize, Deserialize)]
pub enum Status {
    Pass,
    Fail,
    /// The case is outside the property's domain (e.g. rustfmt reported an error); not judged.
    Skip,
}

#[derive(Debug, Clone, Serialize, Deserialize)]
pub struct Outcome {
    pub status: Status,
    /// Human readable explanation (for Fail: what differs).
    pub msg: String,
    /// For Fail: signature used to match known findings (narrow, structural).
    pub sig: String,
    pub nontrivial: bool,
    pub labels: Vec<String>,
    /// Counters of things excluded by construction or not judged.
    pub excluded: Vec<String>,
    /// Additional numeric counters summed into the evidence (e.g. injected fault points).
    #[serde(default)]
    pub counters: Vec<(String, usize)>,
}

impl Outcome {
    pub fn pass() -> Outcome {
        Outcome {
            status: Status::Pass,
            msg: String::new(),
            sig: String::new(),
            nontrivial: false,
            labels: vec![],
            excluded: vec![],
            counters: vec![],
        }
    }
    pub fn skip(why: &str) -> Outcome {
        let mut o = Outcome::pass();
        o.status = Status::Skip;
        o.msg = why.to_owned();
        o.labels.push(format!("skip:{why}"));
        o
    }
    pub fn fail(sig: impl Into<String>, msg: impl Into<String>) -> Outcome {
        let mut o = Outcome::pass();
        o.status = Status::Fail;
        o.sig = sig.into();
        o.msg = msg.into();
        o
    }
    pub fn label(mut self, l: impl Into<String>) -> Outcome {
        self.labels.push(l.into());
        self
    }
    pub fn nontrivial(mut self, b: bool) -> Outcome {
        self.nontrivial = b;
        self
    }
}

pub struct Params {
    /// Number of generated cases.
    pub cases: usize,
    /// Maximum length of the choice sequence.
    pub max_bytes: usize,
    /// Per-case watchdog.
    pub timeout: Duration,
}

/// Context available to generators (parent side).
pub struct GenCtx {
    pub tier: Tier,
    pub corpus: Arc<crate::corpus::Corpus>,
    pub seed: i64,
    /// Failure signatures of `known` findings of this property (for exclusion by construction).
    pub known_sigs: HashSet<String>,
}

/// Context available to `run` (worker side).
pub struct RunCtx {
    pub bin_dir: PathBuf,
    pub frozen_worker: PathBuf,
    pub tmp: PathBuf,
    pub strict: bool,
    pub case_no: usize,
}

pub trait Property: Sync + Send {
    fn id(&self) -> &'static str;
    fn level(&self) -> &'static str {
        "exploration"
    }
    fn params(&self, tier: Tier) -> Params;
    /// Decode a choice sequence into a case (a JSON value that `run` understands).
    fn generate(&self, c: &mut Choices<'_>, g: &GenCtx) -> Value;
    /// Fixed enumerations run before the generated tier (exhaustive sub-spaces, grid sweeps):
    /// number of cases, and case `i` (`None` = excluded by construction, counted).
    fn enum_len(&self, _g: &GenCtx) -> usize {
        0
    }
    fn enum_case(&self, _g: &GenCtx, _i: usize) -> Option<Value> {
        None
    }
    /// Whether the enumeration covers a finite space completely.
    fn enumeration_exhaustive(&self) -> bool {
        false
    }
    /// Execute the oracle on one case. Runs inside a worker process.
    fn run(&self, case: &Value, r: &RunCtx) -> Outcome;
    fn rule(&self) -> &'static str;
    fn assumptions(&self) -> Vec<&'static str> {
        vec![]
    }
    fn needs_corpus(&self) -> bool {
        true
    }
    /// Minimum fraction (percent) of judged cases that must be non-trivial, else exit 2.
    fn nontrivial_floor_pct(&self) -> usize {
        5
    }
}

// ---------------------------------------------------------------------------------------------
// deterministic hashing

pub fn fnv64(data: &[u8]) -> u64 {
    let mut h: u64 = 0xcbf29ce484222325;
    for b in data {
        h ^= *b as u64;
        h = h.wrapping_mul(0x100000001b3);
    }
    h
}

fn seed32(parts: &[&str]) -> [u8; 32] {
    let mut out = [0u8; 32];
    for i in 0..4 {
        let mut s = String::new();
        for p in parts {
            s.push_str(p);
            s.push('\u{1f}');
        }
        s.push_str(&i.to_string());
        let h = fnv64(s.as_bytes());
        // extra mixing
        let h = h ^ (h >> 29);
        let h = h.wrapping_mul(0xbf58476d1ce4e5b9);
        let h = h ^ (h >> 32);
        out[i * 8..i * 8 + 8].copy_from_slice(&h.to_le_bytes());
    }
    out
}

// ---------------------------------------------------------------------------------------------
// worker handle (parent side)

/// The executable workers are spawned from: a private copy of this binary taken at start-up, so
/// that a rebuild of the harness during a long run cannot pull the binary from under it.
pub fn worker_exe() -> PathBuf {
    static EXE: std::sync::OnceLock<PathBuf> = std::sync::OnceLock::new();
    EXE.get_or_init(|| {
        let cur = std::env::current_exe().expect("current_exe");
        let dir = build_dir().join("tmp");
        let _ = std::fs::create_dir_all(&dir);
        let copy = dir.join(format!("vp-run-{}", std::process::id()));
        match std::fs::copy(&cur, &copy) {
            Ok(_) => copy,
            Err(_) => cur,
        }
    })
    .clone()
}

pub fn remove_worker_exe() {
    let p = worker_exe();
    if p.file_name().map(|n| n.to_string_lossy().starts_with("vp-run-")).unwrap_or(false) {
        let _ = std::fs::remove_file(p);
    }
}

pub struct Worker {
    child: Child,
    stdin: ChildStdin,
    rx: Receiver<String>,
    prop: String,
}

pub enum WorkerReply {
    Outcome(Outcome),
    Timeout,
    /// The worker process died (signal/abort/stack overflow); payload = exit description.
    Died(String),
}

impl Worker {
    pub fn spawn(prop: &str) -> Worker {
        let exe = worker_exe();
        // spawning can fail transiently (EAGAIN under load): retry before giving up
        let mut tries = 0;
        let mut child = loop {
            match Command::new(&exe)
                .arg("worker")
                .arg(prop)
                .stdin(Stdio::piped())
                .stdout(Stdio::piped())
                .stderr(Stdio::inherit())
                .spawn()
            {
                Ok(c) => break c,
                Err(e) => {
                    tries += 1;
                    if tries > 120 {
                        panic!("cannot spawn worker: {e}");
                    }
                    std::thread::sleep(Duration::from_millis(500));
                }
            }
        };
        let stdin = child.stdin.take().unwrap();
        let stdout = child.stdout.take().unwrap();
        let (tx, rx) = mpsc::channel();
        std::thread::spawn(move || {
            let mut r = BufReader::new(stdout);
            loop {
                let mut line = String::new();
                match r.read_line(&mut line) {
                    Ok(0) | Err(_) => break,
                    Ok(_) => {
                        if tx.send(line).is_err() {
                            break;
                        }
                    }
                }
            }
        });
        Worker {
            child,
            stdin,
            rx,
            prop: prop.to_owned(),
        }
    }

    fn respawn(&mut self) {
        let _ = self.child.kill();
        let _ = self.child.wait();
        *self = Worker::spawn(&self.prop.clone());
    }

    pub fn run(&mut self, case: &Value, strict: bool, timeout: Duration) -> WorkerReply {
        let req = json!({"case": case, "strict": strict});
        let mut line = serde_json::to_string(&req).unwrap();
        line.push('\n');
        if self.stdin.write_all(line.as_bytes()).is_err() || self.stdin.flush().is_err() {
            let d = self.death_note();
            self.respawn();
            return WorkerReply::Died(d);
        }
        match self.rx.recv_timeout(timeout) {
            Ok(l) => match serde_json::from_str::<Outcome>(&l) {
                Ok(o) => WorkerReply::Outcome(o),
                Err(e) => {
                    self.respawn();
                    WorkerReply::Died(format!("bad reply from worker: {e}: {l}"))
                }
            },
            Err(mpsc::RecvTimeoutError::Timeout) => {
                self.respawn();
                WorkerReply::Timeout
            }
            Err(mpsc::RecvTimeoutError::Disconnected) => {
                let d = self.death_note();
                self.respawn();
                WorkerReply::Died(d)
            }
        }
    }

    fn death_note(&mut self) -> String {
        match self.child.wait() {
            Ok(st) => {
                use std::os::unix::process::ExitStatusExt;
                if let Some(sig) = st.signal() {
                    format!("worker killed by signal {sig}")
                } else {
                    format!("worker exited with status {:?}", st.code())
                }
            }
            Err(e) => format!("worker wait failed: {e}"),
        }
    }
}

impl Drop for Worker {
    fn drop(&mut self) {
        let _ = self.child.kill();
        let _ = self.child.wait();
    }
}

// ---------------------------------------------------------------------------------------------
// known findings

#[derive(Debug, Clone, Deserialize)]
pub struct KnownFinding {
    pub id: String,
    pub property: String,
    /// "known" or "fixed"
    pub status: String,
    #[serde(default)]
    pub commit: String,
    pub what: String,
    /// Failure signatures that identify this finding (exact match on `Outcome::sig`).
    #[serde(default)]
    pub sigs: Vec<String>,
    /// Replay files (relative to /verif) that reproduce it.
    #[serde(default)]
    pub replay: Vec<String>,
}

pub fn load_known(root: &Path) -> Vec<KnownFinding> {
    let p = root.join("known_findings.json");
    match std::fs::read_to_string(&p) {
        Ok(s) => {
            let v: Value = serde_json::from_str(&s).expect("known_findings.json parses");
            serde_json::from_value(v["findings"].clone()).expect("known_findings.json schema")
        }
        Err(_) => vec![],
    }
}

// ---------------------------------------------------------------------------------------------
// statistics

#[derive(Default)]
struct Stats {
    evaluations: usize,
    judged: usize,
    skipped: usize,
    nontrivial_keys: HashSet<u64>,
    labels: BTreeMap<String, usize>,
    excluded: BTreeMap<String, usize>,
    counters: BTreeMap<String, usize>,
    known_seen: BTreeMap<String, usize>,
    inconclusive: usize,
    samples: Vec<Value>,
    died: usize,
}

impl Stats {
    fn record(&mut self, case: &Value, o: &Outcome) {
        self.evaluations += 1;
        match o.status {
            Status::Skip => self.skipped += 1,
            _ => self.judged += 1,
        }
        for l in &o.labels {
            *self.labels.entry(l.clone()).or_default() += 1;
        }
        for l in &o.excluded {
            *self.excluded.entry(l.clone()).or_default() += 1;
        }
        for (k, v) in &o.counters {
            *self.counters.entry(k.clone()).or_default() += *v;
        }
        if o.nontrivial && o.status != Status::Skip {
            let key = fnv64(serde_json::to_string(case).unwrap().as_bytes());
            let new = self.nontrivial_keys.insert(key);
            if new && self.samples.len() < 6 {
                self.samples.push(truncate_value(case, 600));
            }
        }
    }
    fn merge(&mut self, other: Stats) {
        self.evaluations += other.evaluations;
        self.judged += other.judged;
        self.skipped += other.skipped;
        self.inconclusive += other.inconclusive;
        self.died += other.died;
        self.nontrivial_keys.extend(other.nontrivial_keys);
        for (k, v) in other.labels {
            *self.labels.entry(k).or_default() += v;
        }
        for (k, v) in other.excluded {
            *self.excluded.entry(k).or_default() += v;
        }
        for (k, v) in other.counters {
            *self.counters.entry(k).or_default() += v;
        }
        for (k, v) in other.known_seen {
            *self.known_seen.entry(k).or_default() += v;
        }
        for s in other.samples {
            if self.samples.len() < 8 {
                self.samples.push(s);
            }
        }
    }
}

pub fn truncate_value(v: &Value, max: usize) -> Value {
    match v {
        Value::String(s) if s.len() > max => {
            let mut end = max;
            while !s.is_char_boundary(end) {
                end -= 1;
            }
            Value::String(format!("{}…[{} bytes]", &s[..end], s.len()))
        }
        Value::Array(a) => Value::Array(a.iter().take(40).map(|x| truncate_value(x, max)).collect()),
        Value::Object(m) => Value::Object(
            m.iter()
                .map(|(k, x)| (k.clone(), truncate_value(x, max)))
                .collect(),
        ),
        _ => v.clone(),
    }
}

// ---------------------------------------------------------------------------------------------
// the check driver

static ENGINE_THREAD_PANICS: AtomicUsize = AtomicUsize::new(0);

pub struct Violation {
    pub case: Value,
    pub outcome: Outcome,
    pub origin: String,
}

/// Build/scratch directory (default `<root>/.build`; `VP_BUILD` overrides it for isolated
/// evaluation of seeded changes).
pub fn build_dir() -> PathBuf {
    std::env::var("VP_BUILD").map(PathBuf::from).unwrap_or_else(|_| verif_root().join(".build"))
}

pub fn verif_root() -> PathBuf {
    std::env::var("VERIF_ROOT")
        .map(PathBuf::from)
        .unwrap_or_else(|_| PathBuf::from("/verif"))
}

fn env_usize(name: &str, default: usize) -> usize {
    std::env::var(name)
        .ok()
        .and_then(|v| v.parse().ok())
        .unwrap_or(default)
}

/// Judge a reply: returns Some(violation outcome) for an unknown failure.
fn classify(
    reply: WorkerReply,
    case: &Value,
    prop: &dyn Property,
    known: &[KnownFinding],
    stats: &mut Stats,
    count: bool,
) -> Option<Outcome> {
    match reply {
        WorkerReply::Outcome(o) => {
            if count {
                stats.record(case, &o);
            }
            if o.status == Status::Fail {
                if let Some(k) = known
                    .iter()
                    .find(|k| k.status == "known" && k.sigs.iter().any(|s| *s == o.sig))
                {
                    if count {
                        *stats.known_seen.entry(k.id.clone()).or_default() += 1;
                    }
                    return None;
                }
                if let Ok(path) = std::env::var("VP_TRIAGE") {
                    // development aid: log every failure and keep going (never used by checks)
                    use std::fs::OpenOptions;
                    let rec = json!({"sig": o.sig, "msg": o.msg.chars().take(1500).collect::<String>(), "case": case});
                    static TRIAGE_LOCK: Mutex<()> = Mutex::new(());
                    let _g = TRIAGE_LOCK.lock();
                    if let Ok(mut f) = OpenOptions::new().create(true).append(true).open(path) {
                        let _ = f.write_all(format!("{}\n", rec).as_bytes());
                    }
                    return None;
                }
                return Some(o);
            }
            None
        }
        WorkerReply::Timeout => {
            if count {
                stats.evaluations += 1;
                stats.inconclusive += 1;
            }
            if let Ok(path) = std::env::var("VP_TRIAGE") {
                use std::fs::OpenOptions;
                let rec = json!({"sig": "TIMEOUT", "msg": "", "case": case});
                if let Ok(mut f) = OpenOptions::new().create(true).append(true).open(path) {
                    let _ = f.write_all(format!("{}\n", rec).as_bytes());
                }
            }
            None
        }
        WorkerReply::Died(d) => {
            if count {
                stats.evaluations += 1;
                stats.died += 1;
            }
            if prop.id() == "C16" {
                // abnormal termination of the formatting process is C16's subject
                let o = Outcome::fail(format!("worker-died:{d}"), d);
                if known
                    .iter()
                    .any(|k| k.status == "known" && k.sigs.iter().any(|s| *s == o.sig))
                {
                    return None;
                }
                return Some(o);
            }
            if count {
                stats.inconclusive += 1;
            }
            None
        }
    }
}

/// Delta-debugging on the option list of a failing case: drop options (and move max_width
/// to the default) while the same failure signature persists.
fn reduce_opts(w: &mut Worker, case: Value, outcome: Outcome, timeout: Duration) -> (Value, Outcome) {
    let mut best = case;
    let mut best_o = outcome;
    let Some(n) = best["opts"].as_array().map(|a| a.len()) else {
        return (best, best_o);
    };
    let mut i = n;
    while i > 0 {
        i -= 1;
        let mut cand = best.clone();
        if let Some(a) = cand["opts"].as_array_mut() {
            if i >= a.len() {
                continue;
            }
            a.remove(i);
        }
        if let WorkerReply::Outcome(o) = w.run(&cand, false, timeout) {
            if o.status == Status::Fail && o.sig == best_o.sig {
                best = cand;
                best_o = o;
            }
        }
    }
    (best, best_o)
}

pub fn run_check(prop: Arc<dyn Property>, tier: Tier) -> i32 {
    let t0 = Instant::now();
    let root = verif_root();
    let id = prop.id();
    let seed = std::env::var("VERIF_SEED")
        .ok()
        .and_then(|v| v.parse::<i64>().ok())
        .unwrap_or(0);
    let jobs = env_usize("VERIF_JOBS", 16).max(1);
    let known: Arc<Vec<KnownFinding>> = Arc::new(
        load_known(&root)
            .into_iter()
            .filter(|k| k.property == id)
            .collect(),
    );
    let corpus = Arc::new(if prop.needs_corpus() {
        crate::corpus::Corpus::load(&root.join("corpus"))
    } else {
        crate::corpus::Corpus::default()
    });
    let gctx = Arc::new(GenCtx {
        tier,
        corpus: corpus.clone(),
        seed,
        known_sigs: known
            .iter()
            .filter(|k| k.status == "known")
            .flat_map(|k| k.sigs.iter().cloned())
            .collect(),
    });
    let params = prop.params(tier);
    let mut total = Stats::default();
    let mut violations: Vec<Violation> = Vec::new();
    let mut known_lines: Vec<String> = Vec::new();

    // ---- replay tier -------------------------------------------------------------------------
    let replay_dir = root.join("replay").join(id);
    fn json_files(dir: &Path, out: &mut Vec<PathBuf>) {
        if let Ok(rd) = std::fs::read_dir(dir) {
            for p in rd.filter_map(|e| e.ok().map(|e| e.path())) {
                if p.is_dir() {
                    json_files(&p, out);
                } else if p.extension().map(|e| e == "json").unwrap_or(false) {
                    out.push(p);
                }
            }
        }
    }
    let mut replay_files: Vec<PathBuf> = vec![];
    json_files(&replay_dir, &mut replay_files);
    replay_files.sort();
    let mut replayed = 0usize;
    {
        let mut w = Worker::spawn(id);
        for f in &replay_files {
            let txt = match std::fs::read_to_string(f) {
                Ok(t) => t,
                Err(_) => continue,
            };
            let v: Value = match serde_json::from_str(&txt) {
                Ok(v) => v,
                Err(e) => {
                    eprintln!("replay file {} does not parse: {e}", f.display());
                    return 2;
                }
            };
            let case = v["case"].clone();
            let rel = f
                .strip_prefix(&root)
                .unwrap_or(f)
                .to_string_lossy()
                .into_owned();
            replayed += 1;
            let reply = w.run(&case, true, params.timeout * 3);
            let outcome = match reply {
                WorkerReply::Outcome(o) => o,
                WorkerReply::Timeout => {
                    total.inconclusive += 1;
                    continue;
                }
                WorkerReply::Died(d) => {
                    if id == "C16" {
                        Outcome::fail(format!("worker-died:{d}"), d)
                    } else {
                        total.inconclusive += 1;
                        continue;
                    }
                }
            };
            total.record(&case, &outcome);
            if outcome.status == Status::Fail {
                // a known entry covers this replay only if it lists the file AND the signature
                let k = known.iter().find(|k| {
                    k.status == "known"
                        && k.replay.iter().any(|r| *r == rel)
                        && k.sigs.iter().any(|s| *s == outcome.sig)
                });
                match k {
                    Some(k) => {
                        let line = format!("KNOWN-FINDING: property={} {} [{}]", id, k.what, k.id);
                        if !known_lines.contains(&line) {
                            known_lines.push(line);
                        }
                        *total.known_seen.entry(k.id.clone()).or_default() += 1;
                    }
                    None => violations.push(Violation {
                        case,
                        outcome,
                        origin: rel,
                    }),
                }
            }
        }
    }

    // ---- enumerated tier ---------------------------------------------------------------------
    let n_enum = prop.enum_len(&gctx);
    let stop = Arc::new(AtomicBool::new(false));
    if n_enum > 0 && violations.is_empty() {
        let next = Arc::new(AtomicUsize::new(0));
        let results: Arc<Mutex<Vec<(Stats, Vec<Violation>)>>> = Arc::new(Mutex::new(vec![]));
        let mut handles = vec![];
        for _ in 0..jobs.min(n_enum) {
            let prop = prop.clone();
            let known = known.clone();
            let gctx = gctx.clone();
            let next = next.clone();
            let results = results.clone();
            let stop = stop.clone();
            let timeout = params.timeout;
            handles.push(std::thread::spawn(move || {
                let mut w = Worker::spawn(prop.id());
                let mut stats = Stats::default();
                let mut viols = vec![];
                loop {
                    if stop.load(Ordering::Relaxed) {
                        break;
                    }
                    let i = next.fetch_add(1, Ordering::Relaxed);
                    if i >= n_enum {
                        break;
                    }
                    let case = match prop.enum_case(&gctx, i) {
                        Some(c) => c,
                        None => {
                            *stats.excluded.entry("enumeration:excluded(known-finding item or outside the domain)".into()).or_default() += 1;
                            continue;
                        }
                    };
                    let reply = w.run(&case, false, timeout);
                    if let Some(o) = classify(reply, &case, &*prop, &known, &mut stats, true) {
                        let (case, o) = reduce_opts(&mut w, case, o, timeout);
                        viols.push(Violation {
                            case,
                            outcome: o,
                            origin: format!("enumeration index {i}"),
                        });
                        stop.store(true, Ordering::Relaxed);
                    }
                }
                results.lock().unwrap().push((stats, viols));
            }));
        }
        for h in handles {
            if h.join().is_err() {
                ENGINE_THREAD_PANICS.fetch_add(1, Ordering::Relaxed);
            }
        }
        for (s, v) in Arc::try_unwrap(results).ok().unwrap().into_inner().unwrap() {
            total.merge(s);
            violations.extend(v);
        }
    }

    // ---- generated tier ----------------------------------------------------------------------
    if params.cases > 0 && violations.is_empty() {
        let per = (params.cases + jobs - 1) / jobs;
        let results: Arc<Mutex<Vec<(Stats, Option<Violation>)>>> = Arc::new(Mutex::new(vec![]));
        let mut handles = vec![];
        for shard in 0..jobs {
            let prop = prop.clone();
            let known = known.clone();
            let gctx = gctx.clone();
            let results = results.clone();
            let stop = stop.clone();
            let max_bytes = params.max_bytes;
            let timeout = params.timeout;
            let seed_s = seed.to_string();
            handles.push(std::thread::spawn(move || {
                let id = prop.id();
                let rng = TestRng::from_seed(
                    RngAlgorithm::ChaCha,
                    &seed32(&[&seed_s, id, gctx.tier.name(), &shard.to_string()]),
                );
                let cfg = PtConfig {
                    cases: per as u32,
                    failure_persistence: None,
                    max_shrink_iters: 600,
                    max_shrink_time: 180_000,
                    max_global_rejects: 1_000_000,
                    verbose: 0,
                    ..PtConfig::default()
                };
                let mut runner = TestRunner::new_with_rng(cfg, rng);
                let small = proptest::collection::vec(proptest::num::u8::ANY, 0..=(max_bytes / 8).max(8));
                let large = proptest::collection::vec(proptest::num::u8::ANY, (max_bytes / 8)..=max_bytes);
                let strat = proptest::prop_oneof![1 => small, 4 => large];
                let worker = Mutex::new(Worker::spawn(id));
                let stats = Mutex::new(Stats::default());
                let failed = AtomicBool::new(false);
                let last_fail: Mutex<Option<(Value, Outcome)>> = Mutex::new(None);
                let res = runner.run(&strat, |bytes| {
                    let counting = !failed.load(Ordering::Relaxed);
                    if counting && stop.load(Ordering::Relaxed) {
                        // another shard found a violation: finish quickly
                        return Ok(());
                    }
                    let mut ch = Choices::new(&bytes);
                    let case = prop.generate(&mut ch, &gctx);
                    let reply = worker.lock().unwrap().run(&case, false, timeout);
                    let mut st = stats.lock().unwrap();
                    match classify(reply, &case, &*prop, &known, &mut st, counting) {
                        Some(o) => {
                            failed.store(true, Ordering::Relaxed);
                            let msg = o.msg.clone();
                            *last_fail.lock().unwrap() = Some((case, o));
                            Err(TestCaseError::fail(msg))
                        }
                        None => Ok(()),
                    }
                });
                let viol = match res {
                    Ok(()) => None,
                    Err(_) => {
                        stop.store(true, Ordering::Relaxed);
                        last_fail.lock().unwrap().take().map(|(case, outcome)| Violation {
                            case,
                            outcome,
                            origin: format!("generated shard {shard}"),
                        })
                    }
                };
                results
                    .lock()
                    .unwrap()
                    .push((stats.into_inner().unwrap(), viol));
            }));
        }
        for h in handles {
            if h.join().is_err() {
                ENGINE_THREAD_PANICS.fetch_add(1, Ordering::Relaxed);
            }
        }
        for (s, v) in Arc::try_unwrap(results).ok().unwrap().into_inner().unwrap() {
            total.merge(s);
            violations.extend(v);
        }
    }

    // ---- report ------------------------------------------------------------------------------
    for l in &known_lines {
        println!("{l}");
    }
    let mut exit = 0;
    let viol_dir = std::env::var("VP_VIOLATIONS_DIR").map(PathBuf::from).unwrap_or_else(|_| root.join("violations")).join(id);
    // deterministic order, one line per distinct signature
    violations.sort_by(|a, b| a.outcome.sig.cmp(&b.outcome.sig));
    let mut seen_sigs = HashSet::new();
    for v in &violations {
        if !seen_sigs.insert(v.outcome.sig.clone()) {
            continue;
        }
        exit = 1;
        let path = if v.origin.starts_with("replay/") {
            root.join(&v.origin)
        } else {
            let _ = std::fs::create_dir_all(&viol_dir);
            let body = json!({
                "property": id,
                "case": v.case,
                "sig": v.outcome.sig,
                "msg": v.outcome.msg,
                "origin": v.origin,
                "seed": seed,
                "tier": tier.name(),
            });
            let txt = serde_json::to_string_pretty(&body).unwrap();
            let name = format!("{:016x}.json", fnv64(serde_json::to_string(&v.case).unwrap().as_bytes()));
            let p = viol_dir.join(name);
            let _ = std::fs::write(&p, txt);
            p
        };
        println!("VIOLATION property={} replay={}", id, path.display());
        eprintln!("--- {} sig={}\n{}", id, v.outcome.sig, v.outcome.msg);
    }

    let nontrivial = total.nontrivial_keys.len();
    let wall = t0.elapsed().as_secs_f64();
    let labels: serde_json::Map<String, Value> = total
        .labels
        .iter()
        .map(|(k, v)| (k.clone(), json!(v)))
        .collect();
    let mut samples = total.samples.clone();
    if samples.is_empty() {
        samples.push(json!("(no non-trivial case in this run)"));
    }
    let evidence = json!({
        "property_id": id,
        "tier": tier.name(),
        "seed": seed,
        "level": prop.level(),
        "coverage": {
            "evaluations": total.evaluations + total.counters.get("extra_evaluations").copied().unwrap_or(0),
            "distinct_nontrivial": nontrivial,
            "rule": prop.rule(),
            "samples": samples,
            "judged": total.judged,
            "skipped_outside_domain": total.skipped,
            "replayed_files": replayed,
            "enumerated": n_enum,
            "exhaustive": n_enum > 0 && prop.enumeration_exhaustive(),
            "generated_cases_requested": params.cases,
            "labels": labels,
            "excluded_by_construction": total.excluded,
            "counters": total.counters,
            "known_findings_seen": total.known_seen,
            "inconclusive_timeouts_or_worker_deaths": total.inconclusive,
            "jobs": jobs,
        },
        "assumptions": prop.assumptions(),
        "wall_s": (wall * 100.0).round() / 100.0,
        "violations": violations.len(),
    });
    let ev_dir = std::env::var("VP_EVIDENCE_DIR").map(PathBuf::from).unwrap_or_else(|_| root.join("evidence"));
    let _ = std::fs::create_dir_all(&ev_dir);
    let _ = std::fs::write(
        ev_dir.join(format!("{id}.json")),
        serde_json::to_string_pretty(&evidence).unwrap() + "\n",
    );
    eprintln!(
        "[{id} {}] evaluations={} judged={} nontrivial={} skipped={} inconclusive={} known_findings_seen={} violations={} wall={:.1}s",
        tier.name(),
        total.evaluations,
        total.judged,
        nontrivial,
        total.skipped,
        total.inconclusive,
        total.known_seen.len(),
        violations.len(),
        wall
    );
    if exit == 0 {
        let tp = ENGINE_THREAD_PANICS.load(Ordering::Relaxed);
        if tp > 0 {
            eprintln!("[{id}] {tp} engine thread(s) panicked (harness problem): cannot decide");
            return 2;
        }
        if total.evaluations > 0 && total.inconclusive * 50 > total.evaluations {
            eprintln!("[{id}] too many inconclusive cases (>2%): cannot decide");
            return 2;
        }
        let floor = prop.nontrivial_floor_pct();
        if total.judged > 50 && nontrivial * 100 < floor * total.judged {
            eprintln!(
                "[{id}] vacuity guard: only {nontrivial} non-trivial of {} judged (<{floor}%)",
                total.judged
            );
            return 2;
        }
    }
    exit
}

/// `vp replay <file>`: run one saved case in strict mode.
pub fn run_replay(prop: Arc<dyn Property>, file: &Path) -> i32 {
    let txt = std::fs::read_to_string(file).expect("read replay file");
    let v: Value = serde_json::from_str(&txt).expect("replay file parses");
    let case = v["case"].clone();
    let params = prop.params(Tier::Quick);
    let mut w = Worker::spawn(prop.id());
    match w.run(&case, true, params.timeout * 6) {
        WorkerReply::Outcome(o) => {
            println!("status={:?} sig={} nontrivial={} labels={:?}", o.status, o.sig, o.nontrivial, o.labels);
            if !o.msg.is_empty() {
                println!("{}", o.msg);
            }
            if o.status == Status::Fail {
                println!("VIOLATION property={} replay={}", prop.id(), file.display());
                1
            } else {
                0
            }
        }
        WorkerReply::Timeout => {
            println!("inconclusive: timeout");
            2
        }
        WorkerReply::Died(d) => {
            println!("worker died: {d}");
            if prop.id() == "C16" {
                println!("VIOLATION property={} replay={}", prop.id(), file.display());
                1
            } else {
                2
            }
        }
    }
}

// ---------------------------------------------------------------------------------------------
// worker main loop (child side)

pub fn worker_main(prop: Arc<dyn Property>) -> ! {
    // Keep private copies of the protocol pipes, then point fds 0/1/2 away so that whatever
    // rustfmt prints to the process's stdout/stderr cannot corrupt the protocol.
    let (in_fd, out_fd) = unsafe {
        let i = libc::dup(0);
        let o = libc::dup(1);
        let null_r = libc::open(b"/dev/null\0".as_ptr() as *const _, libc::O_RDONLY);
        let null_w = libc::open(b"/dev/null\0".as_ptr() as *const _, libc::O_WRONLY);
        libc::dup2(null_r, 0);
        libc::dup2(null_w, 1);
        if std::env::var("VP_WORKER_STDERR").is_err() {
            libc::dup2(null_w, 2);
        }
        (i, o)
    };
    use std::os::unix::io::FromRawFd;
    let input = unsafe { std::fs::File::from_raw_fd(in_fd) };
    let mut output = unsafe { std::fs::File::from_raw_fd(out_fd) };
    crate::fmt::install_panic_recorder();
    // no ICE dump files from rustfmt binaries spawned by checks
    std::env::set_var("RUSTC_ICE", "0");
    let build = build_dir();
    let tmp = build.join("tmp").join(format!("w{}", std::process::id()));
    let _ = std::fs::create_dir_all(&tmp);
    let mut rctx = RunCtx {
        bin_dir: std::env::var("VP_BIN_DIR")
            .map(PathBuf::from)
            .unwrap_or_else(|_| build.join("repo/debug")),
        frozen_worker: build.join("frozen/release/frozen-worker"),
        tmp: tmp.clone(),
        strict: false,
        case_no: 0,
    };
    let reader = BufReader::new(input);
    for line in reader.lines() {
        let line = match line {
            Ok(l) => l,
            Err(_) => break,
        };
        let req: Value = match serde_json::from_str(&line) {
            Ok(v) => v,
            Err(_) => break,
        };
        rctx.strict = req["strict"].as_bool().unwrap_or(false);
        rctx.case_no += 1;
        let outcome = match std::panic::catch_unwind(std::panic::AssertUnwindSafe(|| {
            prop.run(&req["case"], &rctx)
        })) {
            Ok(o) => o,
            Err(_) => {
                // a panic in the harness/oracle itself (rustfmt calls are wrapped separately)
                let p = crate::fmt::take_panics();
                let mut o = Outcome::skip("harness-panic");
                o.msg = format!("harness panic: {:?}", p.last());
                o.labels.push(format!("harness-panic:{}", p.last().cloned().unwrap_or_default()));
                o
            }
        };
        let mut s = serde_json::to_string(&outcome).unwrap();
        s.push('\n');
        if output.write_all(s.as_bytes()).is_err() {
            break;
        }
    }
    let _ = std::fs::remove_dir_all(&tmp);
    std::process::exit(0)
}

/// Run `f` with the process's stdout (fd 1) redirected into a file; returns what was written.
pub fn capture_stdout<R>(tmp: &Path, f: impl FnOnce() -> R) -> (R, Vec<u8>) {
    use std::os::unix::io::AsRawFd;
    let path = tmp.join("stdout.capture");
    let file = std::fs::File::create(&path).expect("capture file");
    let saved = unsafe { libc::dup(1) };
    unsafe { libc::dup2(file.as_raw_fd(), 1) };
    let r = f();
    let _ = std::io::stdout().flush();
    unsafe {
        libc::dup2(saved, 1);
        libc::close(saved);
    }
    drop(file);
    let data = std::fs::read(&path).unwrap_or_default();
    let _ = std::fs::remove_file(&path);
    (r, data)
}
