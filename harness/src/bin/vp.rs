#![feature(rustc_private)]

use std::path::Path;

use vp::engine::{run_check, run_replay, worker_main, Tier};

fn usage() -> ! {
    eprintln!("usage: vp check <ID> [--tier quick|thorough] | vp replay <ID> <file> | vp worker <ID> | vp list");
    std::process::exit(2)
}

fn main() {
    let args: Vec<String> = std::env::args().collect();
    if args.len() < 2 {
        usage();
    }
    match args[1].as_str() {
        "list" => {
            for p in vp::props::all() {
                println!("{}", p.id());
            }
        }
        "worker" => {
            let p = vp::props::by_id(args.get(2).map(|s| s.as_str()).unwrap_or("")).unwrap_or_else(|| usage());
            worker_main(p)
        }
        "check" => {
            let p = vp::props::by_id(args.get(2).map(|s| s.as_str()).unwrap_or("")).unwrap_or_else(|| usage());
            let mut tier = match std::env::var("VERIF_TIER").as_deref() {
                Ok("thorough") => Tier::Thorough,
                _ => Tier::Quick,
            };
            let mut i = 3;
            while i < args.len() {
                if args[i] == "--tier" {
                    tier = match args.get(i + 1).map(|s| s.as_str()) {
                        Some("thorough") => Tier::Thorough,
                        Some("quick") => Tier::Quick,
                        _ => usage(),
                    };
                    i += 1;
                }
                i += 1;
            }
            let code = run_check(p, tier);
            vp::engine::remove_worker_exe();
            std::process::exit(code)
        }
        "gen-selftest" => {
            // development aid: do generated programs parse?
            let n: usize = args.get(2).and_then(|s| s.parse().ok()).unwrap_or(2000);
            let mut bad = 0;
            let mut tags = std::collections::BTreeMap::new();
            for i in 0..n {
                let bytes = vp::gen::grid::byte_stream(&format!("selftest{i}"), 2048);
                let mut c = vp::choices::Choices::new(&bytes);
                let p = vp::gen::prog::gen_prog(&mut c, &vp::gen::prog::ProgSpace::default());
                let ro = vp::gen::prog::RenderOpts {
                    wild: i % 4,
                    comment_p: if i % 3 == 0 { 4 } else { 0 },
                    in_stmt_p: if i % 6 == 0 { 3 } else { 0 },
                    ..Default::default()
                };
                let r = vp::gen::prog::render(&p, &mut c, &ro);
                for t in &p.tags {
                    *tags.entry(*t).or_insert(0usize) += 1;
                }
                let ed = if p.only_2015 { "2015" } else if p.min_edition == "2015" { "2021" } else { p.min_edition };
                if !vp::parse::parses(&r.text, ed) {
                    bad += 1;
                    if bad <= 400 {
                        let d = vp::parse::LAST_DIAGS.lock().unwrap().first().cloned().unwrap_or_default();
                        let lo: usize = d.split("BytePos(").nth(1).and_then(|x| x.split(')').next()).and_then(|x| x.parse().ok()).unwrap_or(0);
                        let a = lo.saturating_sub(70);
                        let b = (lo + 30).min(r.text.len());
                        let ctx: String = r.text.char_indices().filter(|(i, _)| *i >= a && *i < b).map(|(_, c)| if c == '\n' { ' ' } else { c }).collect();
                        println!("---- FAIL {i}: {} || ...{}...", d.split(" @ ").next().unwrap_or(""), ctx);
                    }
                }
                if i < 3 {
                    println!("==== sample {i}\n{}", r.text);
                }
            }
            println!("{bad} of {n} do not parse");
            println!("{tags:?}");
        }
        "tokcmp" => {
            // development aid: vp tokcmp <a> <b>
            let a = std::fs::read_to_string(&args[2]).unwrap();
            let b = std::fs::read_to_string(&args[3]).unwrap();
            let o = vp::tokcmp::CmpOpts { edition_2015: true, accept_known_macro_delims: true, ..Default::default() };
            println!("{:?}", vp::tokcmp::compare(&a, &b, &o));
            println!("AST A:\n{}", vp::parse::canon_pretty(&a, "2021").unwrap_or_default());
            println!("AST B:\n{}", vp::parse::canon_pretty(&b, "2021").unwrap_or_default());
        }
        "replay" => {
            let p = vp::props::by_id(args.get(2).map(|s| s.as_str()).unwrap_or("")).unwrap_or_else(|| usage());
            let f = args.get(3).unwrap_or_else(|| usage());
            let code = run_replay(p, Path::new(f));
            vp::engine::remove_worker_exe();
            std::process::exit(code)
        }
        _ => usage(),
    }
}
