#![feature(rustc_private)]

use std::path::Path;

use vp::engine::{run_check, run_replay, worker_main, Tier};

fn usage() -> ! {
    eprintln!("usage: vp check <ID> [--tier quick|thorough] | vp replay <ID> <file> | vp worker <ID> | vp list");
    std::process::exit(2)
}

fn main() {
    let args: Vec<String> = std::env::args().collect();
    if args.len() < 2 {
        usage();
    }
    match args[1].as_str() {
        "list" => {
            for p in vp::props::all() {
                println!("{}", p.id());
            }
        }
        "worker" => {
            let p = vp::props::by_id(args.get(2).map(|s| s.as_str()).unwrap_or("")).unwrap_or_else(|| usage());
            worker_main(p)
        }
        "check" => {
            let p = vp::props::by_id(args.get(2).map(|s| s.as_str()).unwrap_or("")).unwrap_or_else(|| usage());
            let mut tier = match std::env::var("VERIF_TIER").as_deref() {
                Ok("thorough") => Tier::Thorough,
                _ => Tier::Quick,
            };
            let mut i = 3;
            while i < args.len() {
                if args[i] == "--tier" {
                    tier = match args.get(i + 1).map(|s| s.as_str()) {
                        Some("thorough") => Tier::Thorough,
                        Some("quick") => Tier::Quick,
                        _ => usage(),
                    };
                    i += 1;
                }
                i += 1;
            }
            std::process::exit(run_check(p, tier))
        }
        "replay" => {
            let p = vp::props::by_id(args.get(2).map(|s| s.as_str()).unwrap_or("")).unwrap_or_else(|| usage());
            let f = args.get(3).unwrap_or_else(|| usage());
            std::process::exit(run_replay(p, Path::new(f)))
        }
        _ => usage(),
    }
}
