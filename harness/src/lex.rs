//! O-LEX: tokens of a text according to `rustc_lexer` (the pinned toolchain's lexer).

use rustc_lexer::{DocStyle, LiteralKind, TokenKind};

#[derive(Debug, Clone, Copy, PartialEq, Eq)]
pub enum TK {
    Ident,
    RawIdent,
    Lifetime,
    /// integer literal
    Int,
    Float,
    Char,
    Byte,
    Str,
    ByteStr,
    CStr,
    RawStr,
    RawByteStr,
    RawCStr,
    Punct,
    OpenDelim,
    CloseDelim,
    /// `///`, `//!`
    DocLine { inner: bool },
    /// `/** */`, `/*! */`
    DocBlock { inner: bool },
    LineComment,
    BlockComment,
    Whitespace,
    Shebang,
    Unknown,
}

impl TK {
    pub fn is_trivia(self) -> bool {
        matches!(self, TK::Whitespace | TK::LineComment | TK::BlockComment | TK::Shebang)
    }
    pub fn is_comment(self) -> bool {
        matches!(self, TK::LineComment | TK::BlockComment)
    }
    pub fn is_doc(self) -> bool {
        matches!(self, TK::DocLine { .. } | TK::DocBlock { .. })
    }
    pub fn is_string_like(self) -> bool {
        matches!(
            self,
            TK::Str | TK::ByteStr | TK::CStr | TK::RawStr | TK::RawByteStr | TK::RawCStr
        )
    }
    pub fn is_literal(self) -> bool {
        matches!(
            self,
            TK::Int
                | TK::Float
                | TK::Char
                | TK::Byte
                | TK::Str
                | TK::ByteStr
                | TK::CStr
                | TK::RawStr
                | TK::RawByteStr
                | TK::RawCStr
        )
    }
}

#[derive(Debug, Clone, Copy)]
pub struct Tok {
    pub kind: TK,
    pub lo: usize,
    pub hi: usize,
    /// false for unterminated literals / comments
    pub terminated: bool,
}

impl Tok {
    pub fn text<'a>(&self, src: &'a str) -> &'a str {
        &src[self.lo..self.hi]
    }
}

/// All tokens including whitespace and comments; concatenating their texts gives `src`.
pub fn lex(src: &str) -> Vec<Tok> {
    let mut out = Vec::new();
    let mut pos = 0;
    if let Some(n) = rustc_lexer::strip_shebang(src) {
        out.push(Tok {
            kind: TK::Shebang,
            lo: 0,
            hi: n,
            terminated: true,
        });
        pos = n;
    }
    for t in rustc_lexer::tokenize(&src[pos..]) {
        let lo = pos;
        let hi = pos + t.len as usize;
        pos = hi;
        let mut terminated = true;
        let kind = match t.kind {
            TokenKind::LineComment { doc_style } => match doc_style {
                Some(DocStyle::Outer) => TK::DocLine { inner: false },
                Some(DocStyle::Inner) => TK::DocLine { inner: true },
                None => TK::LineComment,
            },
            TokenKind::BlockComment {
                doc_style,
                terminated: t,
            } => {
                terminated = t;
                match doc_style {
                    Some(DocStyle::Outer) => TK::DocBlock { inner: false },
                    Some(DocStyle::Inner) => TK::DocBlock { inner: true },
                    None => TK::BlockComment,
                }
            }
            TokenKind::Whitespace => TK::Whitespace,
            TokenKind::Ident => TK::Ident,
            TokenKind::InvalidIdent => TK::Ident,
            TokenKind::RawIdent => TK::RawIdent,
            TokenKind::Lifetime { .. } => TK::Lifetime,
            TokenKind::RawLifetime => TK::Lifetime,
            TokenKind::Literal { kind, .. } => match kind {
                LiteralKind::Int { .. } => TK::Int,
                LiteralKind::Float { .. } => TK::Float,
                LiteralKind::Char { terminated: t } => {
                    terminated = t;
                    TK::Char
                }
                LiteralKind::Byte { terminated: t } => {
                    terminated = t;
                    TK::Byte
                }
                LiteralKind::Str { terminated: t } => {
                    terminated = t;
                    TK::Str
                }
                LiteralKind::ByteStr { terminated: t } => {
                    terminated = t;
                    TK::ByteStr
                }
                LiteralKind::CStr { terminated: t } => {
                    terminated = t;
                    TK::CStr
                }
                LiteralKind::RawStr { n_hashes } => {
                    terminated = n_hashes.is_some();
                    TK::RawStr
                }
                LiteralKind::RawByteStr { n_hashes } => {
                    terminated = n_hashes.is_some();
                    TK::RawByteStr
                }
                LiteralKind::RawCStr { n_hashes } => {
                    terminated = n_hashes.is_some();
                    TK::RawCStr
                }
            },
            TokenKind::OpenParen | TokenKind::OpenBrace | TokenKind::OpenBracket => TK::OpenDelim,
            TokenKind::CloseParen | TokenKind::CloseBrace | TokenKind::CloseBracket => {
                TK::CloseDelim
            }
            TokenKind::Semi
            | TokenKind::Comma
            | TokenKind::Dot
            | TokenKind::At
            | TokenKind::Pound
            | TokenKind::Tilde
            | TokenKind::Question
            | TokenKind::Colon
            | TokenKind::Dollar
            | TokenKind::Eq
            | TokenKind::Bang
            | TokenKind::Lt
            | TokenKind::Gt
            | TokenKind::Minus
            | TokenKind::And
            | TokenKind::Or
            | TokenKind::Plus
            | TokenKind::Star
            | TokenKind::Slash
            | TokenKind::Caret
            | TokenKind::Percent => TK::Punct,
            _ => TK::Unknown,
        };
        out.push(Tok {
            kind,
            lo,
            hi,
            terminated,
        });
    }
    out
}

/// Tokens without whitespace, comments and shebang.
pub fn significant(src: &str) -> Vec<Tok> {
    lex(src).into_iter().filter(|t| !t.kind.is_trivia()).collect()
}

/// Non-doc comments in order.
pub fn comments(src: &str) -> Vec<Tok> {
    lex(src).into_iter().filter(|t| t.kind.is_comment()).collect()
}

pub fn lexes_cleanly(src: &str) -> bool {
    lex(src)
        .iter()
        .all(|t| t.kind != TK::Unknown && t.terminated)
}
