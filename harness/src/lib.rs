#![feature(rustc_private)]

extern crate rustc_ast;
extern crate rustc_ast_pretty;
extern crate rustc_data_structures;
extern crate rustc_driver;
extern crate rustc_errors;
extern crate rustc_lexer;
extern crate rustc_parse;
extern crate rustc_session;
extern crate rustc_span;

pub mod choices;
pub mod corpus;
pub mod engine;
pub mod fmt;
pub mod gen;
pub mod lex;
pub mod parse;
pub mod props;
pub mod tokcmp;
