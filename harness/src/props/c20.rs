//! C20 The --backup write protocol never loses the original.
//!
//! Fault enumeration at syscall granularity: the real binary runs under `strace`, which kills
//! it on entry to its k-th file-system syscall touching the files of the case (or makes exactly
//! that syscall fail with EIO), for every k until the run completes untouched.

use std::collections::BTreeMap;
use std::path::{Path, PathBuf};
use std::process::{Command, Stdio};
use std::time::Duration;

use serde_json::{json, Value};

use crate::choices::Choices;
use crate::engine::{GenCtx, Outcome, Params, Property, RunCtx, Tier};
use crate::fmt::format_text;

pub struct C20;

const BODIES: &[&str] = &[
    "fn main(){let x=1;}\n",
    "fn  f( a:u8 )->u8{a}\nstruct S{a:u8,b:u8}\n",
    "pub fn g(){\n  if true{ }else{ }\n}\n",
    "fn main() {\n    let x = 1;\n}\n",
    "use b::a; use a::b;\nfn h ( ) { }\n",
    "// only a comment\n",
    "fn ok() {}\n",
    "fn crlf(){let x=1;}\r\nfn second ( ) { }\r\n",
    "\u{feff}fn bom(){let x=1;}\n",
    "fn long(){let v=vec![1,2,3,4,5,6,7,8,9,10,11,12,13,14,15,16,17,18,19,20,21,22,23,24,25,26,27,28,29,30,31,32,33,34,35,36,37];}\n",
];

const SYSCALLS: &str = "openat,open,creat,write,pwrite64,writev,rename,renameat,renameat2,unlink,unlinkat,link,linkat,truncate,ftruncate,copy_file_range,sendfile";

fn snapshot(dir: &Path) -> BTreeMap<String, Vec<u8>> {
    let mut m = BTreeMap::new();
    if let Ok(rd) = std::fs::read_dir(dir) {
        for e in rd.flatten() {
            let p = e.path();
            if p.is_file() {
                if let Ok(b) = std::fs::read(&p) {
                    m.insert(p.file_name().unwrap().to_string_lossy().into_owned(), b);
                }
            }
        }
    }
    m
}

struct Files {
    names: Vec<String>,
    orig: Vec<String>,
    formatted: Vec<String>,
    /// stale `.bk` / `.tmp` siblings left by an earlier run
    stale: bool,
    /// only the first file is named on the command line; it declares the others as modules
    tree: bool,
    /// further spellings of the case's paths that rustfmt may use (`up/../b.rs`)
    alt_spellings: Vec<String>,
    /// arguments before / after `--backup`
    args_before: Vec<String>,
    args_after: Vec<String>,
}

/// The name of the `.bk` / `.tmp` sibling: the last extension is replaced.
fn stem(n: &str) -> &str {
    n.rsplit_once('.').map(|x| x.0).unwrap_or(n)
}

const STALE_BK: &str = "// stale backup from an earlier run\n";
const STALE_TMP: &str = "// stale temporary file\n";

fn setup(dir: &Path, f: &Files) {
    let _ = std::fs::remove_dir_all(dir);
    std::fs::create_dir_all(dir).unwrap();
    for (n, c) in f.names.iter().zip(f.orig.iter()) {
        std::fs::write(dir.join(n), c).unwrap();
        if f.stale {
            let stem = stem(n);
            std::fs::write(dir.join(format!("{stem}.bk")), STALE_BK).unwrap();
            std::fs::write(dir.join(format!("{stem}.tmp")), STALE_TMP).unwrap();
        }
    }
    if !f.alt_spellings.is_empty() {
        // `up/../b.rs` only resolves when `up` exists
        std::fs::create_dir_all(dir.join("up")).unwrap();
    }
}

/// The invariant after any crash or failed operation.
fn check_state(dir: &Path, f: &Files, when: &str) -> Result<(), (String, String)> {
    let snap = snapshot(dir);
    for ((n, orig), fmt) in f.names.iter().zip(f.orig.iter()).zip(f.formatted.iter()) {
        let stem = stem(n);
        let file = snap.get(n);
        let bk = snap.get(&format!("{stem}.bk"));
        let original_somewhere = file.map(|b| b == orig.as_bytes()).unwrap_or(false) || bk.map(|b| b == orig.as_bytes()).unwrap_or(false);
        if !original_somewhere {
            return Err((
                "original-lost".into(),
                format!("{when}: neither {n} nor {stem}.bk holds the complete original; {n}={:?} {stem}.bk={:?}", file.map(|b| String::from_utf8_lossy(b).into_owned()), bk.map(|b| String::from_utf8_lossy(b).into_owned())),
            ));
        }
        if let Some(b) = file {
            if b != orig.as_bytes() && b != fmt.as_bytes() {
                return Err(("partial-file".into(), format!("{when}: {n} holds neither the complete original nor the complete formatted text: {:?}", String::from_utf8_lossy(b))));
            }
        }
    }
    Ok(())
}

fn run_traced(r: &RunCtx, dir: &Path, f: &Files, inject: Option<String>, backup: bool, trace_to: Option<&Path>) -> Option<(Option<i32>, bool)> {
    // returns (exit code of rustfmt if it exited, killed-by-signal)
    let mut cmd = Command::new("strace");
    cmd.arg("-f").arg("-qq").arg("-o");
    match trace_to {
        Some(p) => cmd.arg(p),
        None => cmd.arg("/dev/null"),
    };
    for n in f.names.iter().chain(f.alt_spellings.iter()) {
        let stem = stem(n);
        for p in [n.clone(), format!("{stem}.tmp"), format!("{stem}.bk")] {
            cmd.arg("-P").arg(dir.join(p));
        }
    }
    match inject {
        Some(i) => {
            // `i` = "<syscall>:<fault>:when=<n>"
            cmd.arg("-e").arg(format!("inject={i}"));
        }
        None => {
            cmd.arg("-e").arg(format!("trace={SYSCALLS}"));
        }
    }
    cmd.arg(r.bin_dir.join("rustfmt"));
    cmd.args(&f.args_before);
    if backup {
        cmd.arg("--backup");
    }
    cmd.args(&f.args_after);
    for n in f.names.iter().take(if f.tree { 1 } else { f.names.len() }) {
        cmd.arg(dir.join(n));
    }
    cmd.env("RUSTC_ICE", "0").stdin(Stdio::null()).stdout(Stdio::null()).stderr(Stdio::null());
    let st = cmd.status().ok()?;
    use std::os::unix::process::ExitStatusExt;
    // strace propagates the tracee's status (or its killing signal)
    Some((st.code(), st.signal().is_some() || st.code().map(|c| c > 128).unwrap_or(false)))
}

impl Property for C20 {
    fn id(&self) -> &'static str {
        "C20"
    }
    fn level(&self) -> &'static str {
        "fault_enumeration"
    }
    fn needs_corpus(&self) -> bool {
        false
    }
    fn nontrivial_floor_pct(&self) -> usize {
        20
    }
    fn params(&self, tier: Tier) -> Params {
        Params {
            cases: match tier {
                Tier::Quick => 96,
                Tier::Thorough => 1_500,
            },
            max_bytes: 64,
            timeout: Duration::from_secs(400),
        }
    }
    fn rule(&self) -> &'static str {
        "generated sets of 1..3 source files (unformatted, already formatted, comment-only; the rewritten file first/middle/last; in one case of four with stale .bk / .tmp siblings from an earlier run; either all named on the command line or as out-of-line modules of the first file, one of them optionally mounted a second time through `up/../b.rs`, or next to a module file with the same stem, b.inc, which is the known class KF-C20-1), run by the real binary with --backup, alone or together with -l / --files-with-diff / --emit files / --emit=files / -v / --config (before or after --backup), under strace; for every k = 1.. until the run completes untouched, the run is repeated on a fresh copy (i) killed with SIGKILL on entry to its k-th file-system syscall touching F / F.tmp / F.bk and (ii) with exactly that syscall failing with EIO; oracle after each: F or F.bk holds the complete original, F (if present) is exactly the original or exactly the formatted text, in (ii) rustfmt exits with status 1; after the clean run F = formatted, F.bk = original, unchanged files have no .bk; each injected run is one evaluation; non-trivial = a crash point strictly after the first and before the last file-system effect of a rewrite; distinct by (case, k, fault kind)"
    }
    fn assumptions(&self) -> Vec<&'static str> {
        vec!["crash = the process disappears on entry to a syscall (SIGKILL); the kernel's own atomicity of rename(2) and the durability of completed writes are trusted", "strace -P selects the syscalls that touch the case's files by path or by descriptor"]
    }
    fn generate(&self, c: &mut Choices<'_>, _g: &GenCtx) -> Value {
        let n = 1 + c.below(3);
        let mut files: Vec<(String, String)> = vec![];
        for i in 0..n {
            let body = *c.pick(BODIES);
            files.push((format!("{}.rs", ["a", "b", "c"][i]), body.to_string()));
        }
        let stale = c.chance(1, 4);
        // flat: every file is named on the command line; tree: a.rs declares the others as
        // modules and is the only argument; dotdot: b.rs is mounted a second time through
        // `up/../b.rs`; samestem: b.rs and b.inc are both modules of a.rs
        let shape = ["flat", "tree", "dotdot", "samestem"][c.weighted(&[6, 3, 1, 1])];
        if shape != "flat" {
            if files.len() == 1 {
                files.push(("b.rs".into(), (*c.pick(BODIES)).to_string()));
            }
            let mut decls = String::new();
            for (name, _) in files.iter().skip(1) {
                decls.push_str(&format!("mod {};\n", stem(name)));
            }
            if shape == "dotdot" {
                decls.push_str("#[path = \"up/../b.rs\"]\nmod b_again;\n");
            }
            if shape == "samestem" {
                decls.push_str("#[path = \"b.inc\"]\nmod b_inc;\n");
                files.push(("b.inc".into(), (*c.pick(&BODIES[..3])).to_string()));
            }
            files[0].1.push_str(&decls);
        }
        let extra: &[&str] = match c.weighted(&[8, 2, 1, 2, 2, 1, 1]) {
            0 => &[],
            1 => &["-l"],
            2 => &["--files-with-diff"],
            3 => &["--emit", "files"],
            4 => &["--emit=files"],
            5 => &["-v"],
            _ => &["--config", "max_width=100"],
        };
        let files: Vec<Value> = files.into_iter().map(|(n, b)| json!({"name": n, "content": b})).collect();
        json!({"files": files, "stale": stale, "shape": shape, "extra": extra, "extra_after": c.flip()})
    }
    fn run(&self, case: &Value, r: &RunCtx) -> Outcome {
        let shape = case["shape"].as_str().unwrap_or("flat").to_owned();
        let extra: Vec<String> = case["extra"].as_array().into_iter().flatten().filter_map(|x| x.as_str().map(|s| s.to_owned())).collect();
        let after = case["extra_after"].as_bool().unwrap_or(false);
        let mut f = Files {
            names: vec![],
            orig: vec![],
            formatted: vec![],
            stale: case["stale"].as_bool().unwrap_or(false),
            tree: shape != "flat",
            alt_spellings: if shape == "dotdot" { vec!["up/../b.rs".into()] } else { vec![] },
            args_before: if after { vec![] } else { extra.clone() },
            args_after: if after { extra.clone() } else { vec![] },
        };
        for x in case["files"].as_array().into_iter().flatten() {
            let content = x["content"].as_str().unwrap_or("").to_owned();
            let fmt = format_text(&content, &vec![]);
            if !fmt.clean() {
                return Outcome::skip("input-does-not-format");
            }
            f.names.push(x["name"].as_str().unwrap_or("a.rs").to_owned());
            f.formatted.push(fmt.text);
            f.orig.push(content);
        }
        let dir: PathBuf = r.tmp.join(format!("c20-{}", r.case_no));
        let mut o = Outcome::pass();
        let rewritten: Vec<usize> = (0..f.names.len()).filter(|i| f.orig[*i] != f.formatted[*i]).collect();
        o.labels.push(format!("files:{}:rewritten:{}", f.names.len(), rewritten.len()));
        o.labels.push(format!("shape:{shape}"));
        o.labels.push(format!("extra:{}", if extra.is_empty() { "none".to_string() } else { extra.join(" ") }));
        // known class (KF-C20-1): the names of the .bk / .tmp siblings replace the extension, so
        // two rewritten files with the same stem (b.rs, b.inc) share one backup
        let same_stem = rewritten.iter().any(|i| rewritten.iter().any(|j| i != j && stem(&f.names[*i]) == stem(&f.names[*j])));
        if same_stem && case["judge_known"].as_bool() != Some(true) {
            o.excluded.push("known-class:same-stem-files-share-backup".into());
            return o;
        }
        // clean run, traced: which file-system syscalls touch the case's files, and how often
        setup(&dir, &f);
        let trace_file = r.tmp.join(format!("c20-{}.trace", r.case_no));
        let Some((code, killed)) = run_traced(r, &dir, &f, None, true, Some(&trace_file)) else {
            return Outcome::skip("strace-unavailable");
        };
        if killed || code != Some(0) {
            return Outcome::fail("clean-run-status", format!("clean --backup run ended with {code:?} (killed={killed})")).nontrivial(true);
        }
        let mut counts: BTreeMap<String, usize> = BTreeMap::new();
        for line in std::fs::read_to_string(&trace_file).unwrap_or_default().lines() {
            // "<pid> name(args..." (resumed/unfinished lines do not occur for these calls)
            let rest = line.split_once(' ').map(|x| x.1).unwrap_or(line).trim_start();
            if let Some(p) = rest.find('(') {
                let name = &rest[..p];
                if !name.is_empty() && name.chars().all(|c| c.is_ascii_alphanumeric() || c == '_') {
                    *counts.entry(name.to_owned()).or_default() += 1;
                }
            }
        }
        let _ = std::fs::remove_file(&trace_file);
        let snap = snapshot(&dir);
        for i in 0..f.names.len() {
            let stem = stem(&f.names[i]);
            let bk = snap.get(&format!("{stem}.bk"));
            if snap.get(&f.names[i]).map(|b| b.as_slice()) != Some(f.formatted[i].as_bytes()) {
                return Outcome::fail("clean-run-content", format!("after a successful run {} does not hold the formatted text", f.names[i])).nontrivial(true);
            }
            if rewritten.contains(&i) {
                if bk.map(|b| b.as_slice()) != Some(f.orig[i].as_bytes()) {
                    let class = if same_stem { "clean-run-backup/same-stem" } else { "clean-run-backup" };
                    return Outcome::fail(class, format!("after a successful run of rustfmt {:?} --backup {:?} ({shape}) {stem}.bk does not hold the original of {}", f.args_before, f.args_after, f.names[i])).nontrivial(true);
                }
            } else if rewritten.iter().any(|j| self::stem(&f.names[*j]) == stem) {
                // the sibling belongs to a rewritten file with the same stem
                continue;
            } else if f.stale {
                // an unchanged file: the stale sibling is none of this run's business
                if bk.map(|b| b.as_slice()) != Some(STALE_BK.as_bytes()) {
                    return Outcome::fail("backup-of-unchanged-file", format!("{stem}.bk was touched although {} was not changed", f.names[i])).nontrivial(true);
                }
            } else if bk.is_some() {
                return Outcome::fail("backup-of-unchanged-file", format!("{stem}.bk exists although {} was not changed", f.names[i])).nontrivial(true);
            }
            // (a stale .tmp of an unchanged file stays; one of a rewritten file is consumed)
            if snap.contains_key(&format!("{stem}.tmp")) && !(f.stale && !rewritten.contains(&i)) {
                return Outcome::fail("leftover-tmp", format!("{stem}.tmp left behind by a successful run")).nontrivial(true);
            }
        }
        // fault enumeration: every invocation (syscall name, n-th occurrence) seen in the clean run
        let mut points = 0;
        let total_calls: usize = counts.values().sum();
        let mut seen_calls = 0usize;
        for (name, n) in &counts {
            for k in 1..=*n {
                seen_calls += 1;
                for kind in ["signal=SIGKILL", "error=EIO"] {
                    setup(&dir, &f);
                    let Some((code, killed)) = run_traced(r, &dir, &f, Some(format!("{name}:{kind}:when={k}")), true, None) else {
                        return Outcome::skip("strace-unavailable");
                    };
                    let when = format!("{kind} at {name} #{k}");
                    if let Err((class, msg)) = check_state(&dir, &f, &when) {
                        let _ = std::fs::remove_dir_all(&dir);
                        return Outcome::fail(format!("{class}:{}", kind.split('=').next().unwrap_or("")), msg).nontrivial(true);
                    }
                    if kind == "error=EIO" && !killed {
                        if code != Some(1) {
                            let all_done = (0..f.names.len()).all(|i| snapshot(&dir).get(&f.names[i]).map(|b| b.as_slice()) == Some(f.formatted[i].as_bytes()));
                            let _ = std::fs::remove_dir_all(&dir);
                            let class = if code == Some(0) && !all_done { "io-error-ignored" } else { "io-error-status" };
                            return Outcome::fail(class, format!("{when}: exit status {code:?}, expected 1")).nontrivial(true);
                        }
                    }
                    if kind == "signal=SIGKILL" && !killed {
                        let _ = std::fs::remove_dir_all(&dir);
                        return Outcome::skip("injection-did-not-fire");
                    }
                    points += 1;
                    if seen_calls > 1 && seen_calls < total_calls {
                        o.nontrivial = true;
                    }
                }
            }
        }
        let _ = std::fs::remove_dir_all(&dir);
        o.counters.push(("extra_evaluations".into(), points));
        o.counters.push(("injected_fault_runs".into(), points));
        o.nontrivial = o.nontrivial && !rewritten.is_empty();
        o
    }
}
