//! Helpers shared by property modules.

use serde_json::Value;

use crate::fmt::Opts;

pub fn opts_from(v: &Value) -> Opts {
    v.as_array()
        .map(|a| {
            a.iter()
                .filter_map(|p| {
                    let p = p.as_array()?;
                    Some((p.first()?.as_str()?.to_owned(), p.get(1)?.as_str()?.to_owned()))
                })
                .collect()
        })
        .unwrap_or_default()
}

pub fn opts_to(o: &Opts) -> Value {
    Value::Array(
        o.iter()
            .map(|(k, v)| Value::Array(vec![Value::String(k.clone()), Value::String(v.clone())]))
            .collect(),
    )
}

pub fn min_edition_static(e: &str) -> &'static str {
    match e {
        "2018" => "2018",
        "2021" => "2021",
        "2024" => "2024",
        _ => "2015",
    }
}

/// Labels describing a configuration: every non-core option plus a width bucket.
pub fn conf_labels(o: &Opts) -> Vec<String> {
    let mut v = vec![];
    for (k, val) in o {
        match k.as_str() {
            "max_width" => {
                let w: usize = val.parse().unwrap_or(100);
                v.push(format!(
                    "width:{}",
                    if w <= 40 {
                        "20-40"
                    } else if w <= 80 {
                        "41-80"
                    } else if w <= 120 {
                        "81-120"
                    } else {
                        "121-200"
                    }
                ));
            }
            "edition" | "tab_spaces" => {}
            "style_edition" => v.push(format!("style_edition:{val}")),
            _ => v.push(format!("opt:{k}")),
        }
    }
    if !o.iter().any(|(k, _)| k == "max_width") {
        v.push("width:81-120".into());
    }
    v
}

/// First line at which two texts differ, with a little context, for messages.
pub fn first_diff(a: &str, b: &str) -> String {
    let la: Vec<&str> = a.lines().collect();
    let lb: Vec<&str> = b.lines().collect();
    let n = la.len().max(lb.len());
    for i in 0..n {
        let x = la.get(i).copied();
        let y = lb.get(i).copied();
        if x != y {
            let lo = i.saturating_sub(2);
            let mut s = format!("first difference at line {}:\n", i + 1);
            for j in lo..(i + 3).min(n) {
                s.push_str(&format!(
                    "  {:>4} A| {}\n       B| {}\n",
                    j + 1,
                    la.get(j).copied().unwrap_or("<eof>"),
                    lb.get(j).copied().unwrap_or("<eof>")
                ));
            }
            return s;
        }
    }
    if a != b {
        return "texts differ only in line terminators / final newline".into();
    }
    "no difference".into()
}

/// Strip digits runs to `N` so messages with offsets group together.
pub fn strip_digits(s: &str) -> String {
    let mut out = String::new();
    let mut in_num = false;
    for ch in s.chars() {
        if ch.is_ascii_digit() {
            if !in_num {
                out.push('N');
            }
            in_num = true;
        } else {
            in_num = false;
            out.push(ch);
        }
    }
    out
}

// ---------------------------------------------------------------------------------------------
// corpus-grid helpers shared by the API family

use std::collections::HashMap;
use std::sync::{Arc, Mutex, OnceLock};

use crate::engine::{GenCtx, Tier};
use crate::gen::conf::ConfSpace;
use crate::gen::grid::{grid_cell, grid_size, select_cells, Cell};

static CELLS: OnceLock<Mutex<HashMap<String, Arc<Vec<usize>>>>> = OnceLock::new();

fn env_usize(name: &str) -> Option<usize> {
    std::env::var(name).ok().and_then(|v| v.parse().ok())
}

/// Number of grid cells a tier visits (`VP_GRID_N` overrides, `VP_GRID_ALL=1` sweeps the grid).
pub fn grid_len(g: &GenCtx, quick: usize, thorough: usize) -> usize {
    let size = grid_size(&g.corpus);
    if std::env::var("VP_GRID_ALL").is_ok() {
        return size;
    }
    let n = env_usize("VP_GRID_N").unwrap_or(match g.tier {
        Tier::Quick => quick,
        Tier::Thorough => thorough,
    });
    n.min(size)
}

/// The `i`-th cell of this run's selection.
pub fn grid_pick(g: &GenCtx, prop: &str, n: usize, i: usize, space: &ConfSpace, newlines: bool) -> Cell {
    let size = grid_size(&g.corpus);
    let idx = if n >= size {
        i
    } else {
        let key = format!("{prop}/{}/{}/{n}", g.seed, g.tier.name());
        let m = CELLS.get_or_init(|| Mutex::new(HashMap::new()));
        let cells = {
            let mut m = m.lock().unwrap();
            m.entry(key)
                .or_insert_with(|| Arc::new(select_cells(g.seed, &format!("{prop}/{}", g.tier.name()), n, size)))
                .clone()
        };
        cells[i]
    };
    grid_cell(&g.corpus, idx, space, newlines)
}

pub fn cell_case(cell: &Cell) -> Value {
    serde_json::json!({
        "src": cell.src.text,
        "opts": opts_to(&cell.opts),
        "origin": cell.src.origin,
        "edition": cell.src.edition,
        "layout": cell.src.layout,
        "cell": cell.cell,
    })
}

// ---------------------------------------------------------------------------------------------
// comment positions (domain of C02 and C03)

use crate::lex::{lex, TK};

#[derive(Debug, Clone, Copy, PartialEq, Eq)]
pub enum CommentPos {
    /// inside the body block of a function or method
    InFnBody,
    /// between items / statements / list elements, or at the end of such a line
    Boundary,
    /// anywhere else (e.g. between `fn` and the name): outside the claims of C02/C03
    Odd,
}

/// Classifies every non-doc comment of `src` (in order). `None` if `src` does not parse.
pub fn comment_positions(src: &str, edition: &str) -> Option<Vec<(usize, usize, CommentPos)>> {
    let toks = lex(src);
    if !toks.iter().any(|t| t.kind.is_comment()) {
        return Some(vec![]);
    }
    let bodies = crate::parse::fn_body_ranges(src, edition)?;
    let sig: Vec<usize> = toks
        .iter()
        .enumerate()
        .filter(|(_, t)| !t.kind.is_trivia())
        .map(|(i, _)| i)
        .collect();
    let mut out = vec![];
    for (i, t) in toks.iter().enumerate() {
        if !t.kind.is_comment() {
            continue;
        }
        let pos = if bodies.iter().any(|(lo, hi)| *lo < t.lo && t.hi < *hi) {
            CommentPos::InFnBody
        } else {
            let prev = sig.iter().rev().find(|j| **j < i).map(|j| toks[*j].text(src));
            let next = sig.iter().find(|j| **j > i).map(|j| toks[*j].text(src));
            let prev_ok = match prev {
                None => true,
                Some(p) => matches!(p, ";" | "{" | "}" | "," | "(" | "[" | "]"),
            };
            let next_ok = match next {
                None => true,
                Some(n) => matches!(n, "}" | ")" | "]"),
            };
            if prev_ok || next_ok {
                CommentPos::Boundary
            } else {
                CommentPos::Odd
            }
        };
        out.push((t.lo, t.hi, pos));
    }
    let _ = TK::Whitespace;
    Some(out)
}
