//! Helpers shared by property modules.

use serde_json::Value;

use crate::fmt::Opts;

pub fn opts_from(v: &Value) -> Opts {
    v.as_array()
        .map(|a| {
            a.iter()
                .filter_map(|p| {
                    let p = p.as_array()?;
                    Some((p.first()?.as_str()?.to_owned(), p.get(1)?.as_str()?.to_owned()))
                })
                .collect()
        })
        .unwrap_or_default()
}

pub fn opts_to(o: &Opts) -> Value {
    Value::Array(
        o.iter()
            .map(|(k, v)| Value::Array(vec![Value::String(k.clone()), Value::String(v.clone())]))
            .collect(),
    )
}

pub fn min_edition_static(e: &str) -> &'static str {
    match e {
        "2018" => "2018",
        "2021" => "2021",
        "2024" => "2024",
        _ => "2015",
    }
}

/// Labels describing a configuration: every non-core option plus a width bucket.
pub fn conf_labels(o: &Opts) -> Vec<String> {
    let mut v = vec![];
    for (k, val) in o {
        match k.as_str() {
            "max_width" => {
                let w: usize = val.parse().unwrap_or(100);
                v.push(format!(
                    "width:{}",
                    if w <= 40 {
                        "20-40"
                    } else if w <= 80 {
                        "41-80"
                    } else if w <= 120 {
                        "81-120"
                    } else {
                        "121-200"
                    }
                ));
            }
            "edition" | "tab_spaces" => {}
            "style_edition" => v.push(format!("style_edition:{val}")),
            _ => v.push(format!("opt:{k}")),
        }
    }
    if !o.iter().any(|(k, _)| k == "max_width") {
        v.push("width:81-120".into());
    }
    v
}

/// First line at which two texts differ, with a little context, for messages.
pub fn first_diff(a: &str, b: &str) -> String {
    let la: Vec<&str> = a.lines().collect();
    let lb: Vec<&str> = b.lines().collect();
    let n = la.len().max(lb.len());
    for i in 0..n {
        let x = la.get(i).copied();
        let y = lb.get(i).copied();
        if x != y {
            let lo = i.saturating_sub(2);
            let mut s = format!("first difference at line {}:\n", i + 1);
            for j in lo..(i + 3).min(n) {
                s.push_str(&format!(
                    "  {:>4} A| {}\n       B| {}\n",
                    j + 1,
                    la.get(j).copied().unwrap_or("<eof>"),
                    lb.get(j).copied().unwrap_or("<eof>")
                ));
            }
            return s;
        }
    }
    if a != b {
        return "texts differ only in line terminators / final newline".into();
    }
    "no difference".into()
}

/// Strip digits runs to `N` so messages with offsets group together.
pub fn strip_digits(s: &str) -> String {
    let mut out = String::new();
    let mut in_num = false;
    for ch in s.chars() {
        if ch.is_ascii_digit() {
            if !in_num {
                out.push('N');
            }
            in_num = true;
        } else {
            in_num = false;
            out.push(ch);
        }
    }
    out
}
