//! C12 Diff-based reports reconstruct the formatted text exactly.

use std::str::FromStr;
use std::time::Duration;

use rustfmt_nightly::verif_hooks::{emit_pair, make_diff, modified_lines, DiffLineV};
use rustfmt_nightly::{EmitMode, ModifiedLines};
use serde_json::{json, Value};

use crate::choices::Choices;
use crate::engine::{GenCtx, Outcome, Params, Property, RunCtx, Tier};
use crate::fmt::format_text;
use crate::props::common::*;

pub struct C12;

const ALPHABET: [&str; 3] = ["a", "b", ""];

/// All texts made of at most `max` lines over the alphabet, with and without final newline.
fn small_texts(max: usize) -> Vec<String> {
    let mut seqs: Vec<Vec<&str>> = vec![vec![]];
    let mut frontier: Vec<Vec<&str>> = vec![vec![]];
    for _ in 0..max {
        let mut next = vec![];
        for s in &frontier {
            for a in ALPHABET {
                let mut t = s.clone();
                t.push(a);
                next.push(t);
            }
        }
        seqs.extend(next.iter().cloned());
        frontier = next;
    }
    let mut out = vec![];
    for s in seqs {
        let joined = s.join("\n");
        out.push(joined.clone());
        out.push(format!("{joined}\n"));
    }
    out
}

/// A strict reader for the checkstyle document: returns (file name, [(line, message)]).
fn parse_checkstyle(doc: &str) -> Result<Vec<(String, Vec<(u32, String)>)>, String> {
    fn unescape(s: &str) -> Result<String, String> {
        let mut out = String::new();
        let mut rest = s;
        while let Some(c) = rest.chars().next() {
            if c == '<' {
                return Err("raw `<` in attribute value".into());
            }
            if (c as u32) < 0x20 && c != '\t' && c != '\n' && c != '\r' {
                return Err(format!("control character U+{:04X} is not allowed in XML 1.0", c as u32));
            }
            if c == '\u{FFFE}' || c == '\u{FFFF}' {
                return Err("non-character in XML".into());
            }
            if c == '&' {
                let end = rest.find(';').ok_or("unterminated entity")?;
                let ent = &rest[1..end];
                out.push(match ent {
                    "lt" => '<',
                    "gt" => '>',
                    "quot" => '"',
                    "apos" => '\'',
                    "amp" => '&',
                    _ => return Err(format!("unknown entity &{ent};")),
                });
                rest = &rest[end + 1..];
                continue;
            }
            out.push(c);
            rest = &rest[c.len_utf8()..];
        }
        Ok(out)
    }
    fn attrs(tag: &str) -> Result<Vec<(String, String)>, String> {
        // tag = `name a="v" b="w"` (without angle brackets, trailing `/` removed)
        let mut out = vec![];
        let mut rest = tag.trim_start();
        // skip element name
        let n = rest.find(|c: char| c.is_whitespace()).unwrap_or(rest.len());
        rest = &rest[n..];
        loop {
            rest = rest.trim_start();
            if rest.is_empty() {
                break;
            }
            let eq = rest.find('=').ok_or("attribute without `=`")?;
            let name = rest[..eq].trim().to_owned();
            rest = &rest[eq + 1..];
            if !rest.starts_with('"') {
                return Err("attribute value not quoted".into());
            }
            rest = &rest[1..];
            let end = rest.find('"').ok_or("unterminated attribute value")?;
            out.push((name, unescape(&rest[..end])?));
            rest = &rest[end + 1..];
        }
        Ok(out)
    }
    let header = "<?xml version=\"1.0\" encoding=\"utf-8\"?>\n";
    let body = doc.strip_prefix(header).ok_or("missing XML declaration")?;
    let body = body.strip_suffix('\n').ok_or("missing final newline")?;
    // elements: a tag ends at the first `>` that is outside quotes
    let mut tags: Vec<String> = vec![];
    let mut cur = String::new();
    let mut in_tag = false;
    let mut in_quote = false;
    for c in body.chars() {
        if !in_tag {
            if c == '<' {
                in_tag = true;
                cur.clear();
            } else {
                return Err(format!("character data {c:?} between elements"));
            }
        } else if in_quote {
            if c == '"' {
                in_quote = false;
            }
            cur.push(c);
        } else if c == '"' {
            in_quote = true;
            cur.push(c);
        } else if c == '>' {
            in_tag = false;
            tags.push(cur.clone());
        } else if c == '<' {
            return Err("`<` inside a tag".into());
        } else {
            cur.push(c);
        }
    }
    if in_tag {
        return Err("unterminated tag".into());
    }
    let mut it = tags.iter();
    let root = it.next().ok_or("empty document")?;
    if !root.starts_with("checkstyle") {
        return Err("root element is not checkstyle".into());
    }
    let mut files = vec![];
    let mut cur_file: Option<(String, Vec<(u32, String)>)> = None;
    let mut closed_root = false;
    for t in it {
        if closed_root {
            return Err("content after the root element".into());
        }
        if t == "/checkstyle" {
            if cur_file.is_some() {
                return Err("file element not closed".into());
            }
            closed_root = true;
        } else if t == "/file" {
            files.push(cur_file.take().ok_or("unbalanced </file>")?);
        } else if t.starts_with("file") {
            if cur_file.is_some() {
                return Err("nested file element".into());
            }
            let a = attrs(t)?;
            let name = a.iter().find(|(k, _)| k == "name").ok_or("file without name")?.1.clone();
            cur_file = Some((name, vec![]));
        } else if t.starts_with("error") {
            let t = t.strip_suffix('/').ok_or("error element not self-closed")?;
            let a = attrs(t)?;
            let line: u32 = a
                .iter()
                .find(|(k, _)| k == "line")
                .ok_or("error without line")?
                .1
                .parse()
                .map_err(|_| "line is not a number")?;
            let msg = a.iter().find(|(k, _)| k == "message").ok_or("error without message")?.1.clone();
            cur_file.as_mut().ok_or("error outside file")?.1.push((line, msg));
        } else {
            return Err(format!("unexpected element <{t}>"));
        }
    }
    if !closed_root {
        return Err("root element not closed".into());
    }
    Ok(files)
}

/// Checks every report for one pair of texts; Err(class, message) on the first inconsistency.
pub fn check_pair(orig: &str, fmt: &str, contexts: &[usize], judge_control: bool) -> Result<(usize, usize), (String, String)> {
    // the lines of a text as the reports see them: `str::lines()` plus a final empty line when
    // the text ends with a terminator (so "a" and "a\n" are different line sequences)
    fn lines_of(t: &str) -> Vec<&str> {
        let mut v: Vec<&str> = t.lines().collect();
        if t.ends_with('\n') {
            v.push("");
        }
        v
    }
    let ol: Vec<&str> = lines_of(orig);
    let fl: Vec<&str> = lines_of(fmt);
    let same_lines = ol == fl;
    let mut max_hunks = 0;
    let mut edge = 0;
    // --- modified lines ----------------------------------------------------------------------
    let ml = modified_lines(orig, fmt);
    if ml.chunks.is_empty() != same_lines {
        return Err(("modified-lines:emptiness".into(), format!("report empty = {}, same lines = {}", ml.chunks.is_empty(), same_lines)));
    }
    {
        let mut out: Vec<String> = vec![];
        let mut pos = 0usize; // index into ol
        for c in &ml.chunks {
            let start = c.line_number_orig as usize;
            if start == 0 || start - 1 < pos || start - 1 > ol.len() {
                return Err(("modified-lines:line-number".into(), format!("chunk at original line {start} (previous end {pos}, {} lines)", ol.len())));
            }
            out.extend(ol[pos..start - 1].iter().map(|s| s.to_string()));
            pos = start - 1 + c.lines_removed as usize;
            if pos > ol.len() {
                return Err(("modified-lines:removed-count".into(), format!("chunk at {start} removes {} lines of {}", c.lines_removed, ol.len())));
            }
            out.extend(c.lines.iter().cloned());
            if start == 1 || pos == ol.len() {
                edge += 1;
            }
        }
        out.extend(ol[pos..].iter().map(|s| s.to_string()));
        if out != fl {
            return Err((
                "modified-lines:apply".into(),
                format!("applying the chunks to the original does not give the formatted lines\n  chunks: {:?}\n  got: {:?}\n  want: {:?}", ml.chunks, out, fl),
            ));
        }
        let printed = format!("{ml}");
        match ModifiedLines::from_str(&printed) {
            Ok(back) => {
                if back != ml {
                    return Err(("modified-lines:roundtrip".into(), format!("printing and re-parsing changes the report: {:?} vs {:?}", ml.chunks, back.chunks)));
                }
            }
            Err(()) => return Err(("modified-lines:roundtrip".into(), format!("the printed report does not re-parse: {printed:?}"))),
        }
    }
    // --- diff hunks --------------------------------------------------------------------------
    for &ctx in contexts {
        let hunks = make_diff(orig, fmt, ctx);
        if hunks.is_empty() != same_lines {
            return Err(("diff:emptiness".into(), format!("context {ctx}: diff empty = {}, same lines = {}", hunks.is_empty(), same_lines)));
        }
        max_hunks = max_hunks.max(hunks.len());
        let mut last_o = 0usize;
        let mut last_f = 0usize;
        let mut removed = 0usize;
        let mut added = 0usize;
        for h in &hunks {
            let mut lo = h.line_number_orig as usize;
            let mut lf = h.line_number as usize;
            if lo == 0 || lf == 0 || lo - 1 < last_o || lf - 1 < last_f {
                return Err(("diff:line-number".into(), format!("context {ctx}: hunk starts at orig {lo} / formatted {lf}, previous hunk ended at {last_o}/{last_f}")));
            }
            let mut changes = 0;
            for l in &h.lines {
                match l {
                    DiffLineV::Context(s) => {
                        if ol.get(lo - 1) != Some(&s.as_str()) || fl.get(lf - 1) != Some(&s.as_str()) {
                            return Err(("diff:context".into(), format!("context {ctx}: context line {s:?} is not line {lo} of the original and line {lf} of the formatted text")));
                        }
                        lo += 1;
                        lf += 1;
                    }
                    DiffLineV::Resulting(s) => {
                        if ol.get(lo - 1) != Some(&s.as_str()) {
                            return Err(("diff:removed".into(), format!("context {ctx}: removed line {s:?} is not line {lo} of the original")));
                        }
                        lo += 1;
                        removed += 1;
                        changes += 1;
                    }
                    DiffLineV::Expected(s) => {
                        if fl.get(lf - 1) != Some(&s.as_str()) {
                            return Err(("diff:added".into(), format!("context {ctx}: added line {s:?} is not line {lf} of the formatted text")));
                        }
                        lf += 1;
                        added += 1;
                        changes += 1;
                    }
                }
            }
            if changes == 0 {
                return Err(("diff:empty-hunk".into(), format!("context {ctx}: a hunk without changes")));
            }
            last_o = lo - 1;
            last_f = lf - 1;
        }
        // every change is reported: what lies outside the hunks is identical
        if ol.len() - removed != fl.len() - added {
            return Err(("diff:coverage".into(), format!("context {ctx}: {removed} removed / {added} added lines do not account for {} vs {} lines", ol.len(), fl.len())));
        }
    }
    // --- json ---------------------------------------------------------------------------------
    {
        let mut buf: Vec<u8> = vec![];
        let has = emit_pair("f.rs", orig, fmt, EmitMode::Json, &mut buf).map_err(|e| ("json:io".to_string(), e.to_string()))?;
        let text = String::from_utf8(buf).map_err(|_| ("json:utf8".to_string(), "not UTF-8".to_string()))?;
        let v: Value = serde_json::from_str(&text).map_err(|e| ("json:malformed".to_string(), format!("{e}: {text:?}")))?;
        let arr = v.as_array().ok_or(("json:shape".to_string(), "top level is not an array".to_string()))?;
        if has == same_lines {
            return Err(("json:has-diff".into(), format!("has_diff = {has}, same lines = {same_lines}")));
        }
        if arr.is_empty() != same_lines {
            return Err(("json:emptiness".into(), format!("document {text:?} for same_lines = {same_lines}")));
        }
        let mut out: Vec<String> = vec![];
        let mut pos = 0usize;
        for f in arr {
            if f["name"].as_str() != Some("f.rs") {
                return Err(("json:name".into(), format!("file name {:?}", f["name"])));
            }
            for b in f["mismatches"].as_array().ok_or(("json:shape".to_string(), "mismatches".to_string()))? {
                let ob = b["original_begin_line"].as_u64().unwrap_or(0) as usize;
                let oe = b["original_end_line"].as_u64().unwrap_or(0) as usize;
                let eb = b["expected_begin_line"].as_u64().unwrap_or(0) as usize;
                let ee = b["expected_end_line"].as_u64().unwrap_or(0) as usize;
                let o_txt = b["original"].as_str().unwrap_or("");
                let e_txt = b["expected"].as_str().unwrap_or("");
                // every reported line is followed by "\n": the block texts are terminator-joined
                let o_lines: Vec<&str> = o_txt.split_terminator('\n').collect();
                let e_lines: Vec<&str> = e_txt.split_terminator('\n').collect();
                let n = o_txt.matches('\n').count();
                let m = e_txt.matches('\n').count();
                if ob == 0 || ob - 1 < pos || ob - 1 + n > ol.len() || ol[ob - 1..ob - 1 + n] != o_lines[..] || n != o_lines.len() {
                    return Err(("json:original".into(), format!("block original {o_txt:?} is not lines {ob}.. of the original {:?}", ol)));
                }
                if eb == 0 || eb - 1 + m > fl.len() || fl[eb - 1..eb - 1 + m] != e_lines[..] || m != e_lines.len() {
                    return Err(("json:expected".into(), format!("block expected {e_txt:?} is not lines {eb}.. of the formatted text {:?}", fl)));
                }
                if (n > 0 && oe != ob + n - 1) || (n == 0 && oe != ob) || (m > 0 && ee != eb + m - 1) || (m == 0 && ee != eb) {
                    return Err(("json:end-lines".into(), format!("end lines {oe}/{ee} for begin {ob}/{eb} with {n}/{m} lines")));
                }
                out.extend(ol[pos..ob - 1].iter().map(|s| s.to_string()));
                out.extend(e_lines.iter().map(|s| s.to_string()));
                pos = ob - 1 + n;
            }
        }
        out.extend(ol[pos..].iter().map(|s| s.to_string()));
        if out != fl {
            return Err(("json:apply".into(), format!("applying the json blocks gives {:?}, want {:?}", out, fl)));
        }
    }
    // --- checkstyle ---------------------------------------------------------------------------
    {
        let has_control = fl.iter().any(|l| l.chars().any(|c| (c as u32) < 0x20 && c != '\t'));
        let mut buf: Vec<u8> = vec![];
        emit_pair("f.rs", orig, fmt, EmitMode::Checkstyle, &mut buf).map_err(|e| ("checkstyle:io".to_string(), e.to_string()))?;
        let text = String::from_utf8(buf).map_err(|_| ("checkstyle:utf8".to_string(), "not UTF-8".to_string()))?;
        match parse_checkstyle(&text) {
            Err(e) => {
                if has_control && !judge_control {
                    // known class: control characters are passed through (counted by the caller)
                    return Ok((max_hunks, edge + 1000));
                }
                let class = if has_control { "checkstyle:control-character" } else { "checkstyle:malformed" };
                return Err((class.into(), format!("{e}: {text:?}")));
            }
            Ok(files) => {
                if files.len() != 1 || files[0].0 != "f.rs" {
                    return Err(("checkstyle:files".into(), format!("{files:?}")));
                }
                // the Expected lines of the context-0 diff with their formatted line numbers
                let mut want: Vec<(u32, String)> = vec![];
                for h in make_diff(orig, fmt, 0) {
                    let mut lf = h.line_number;
                    for l in &h.lines {
                        if let DiffLineV::Expected(s) = l {
                            want.push((lf, format!("Should be `{s}`")));
                            lf += 1;
                        }
                    }
                }
                if files[0].1 != want {
                    return Err(("checkstyle:content".into(), format!("errors {:?}, want {:?}", files[0].1, want)));
                }
                for (line, msg) in &files[0].1 {
                    let body = &msg["Should be `".len()..msg.len() - 1];
                    if fl.get(*line as usize - 1) != Some(&body) {
                        return Err(("checkstyle:line".into(), format!("line {line} message {body:?} is not that line of the formatted text")));
                    }
                }
            }
        }
    }
    Ok((max_hunks, edge))
}

const LINE_POOL: &[&str] = &[
    "", "a", "b", "fn main() {", "}", "    let x = 1;", "    let x  =  1;", "<tag attr=\"v\"> & 'q'", "\\n \\\\ back", "\tfn tab() {}", "é日本 🦀", "1 2 3", "  ", "&amp; &lt;", "]]>", "--", "let s = \"a\\\"b\";",
];

impl Property for C12 {
    fn id(&self) -> &'static str {
        "C12"
    }
    fn needs_corpus(&self) -> bool {
        true
    }
    fn params(&self, tier: Tier) -> Params {
        Params {
            cases: match tier {
                Tier::Quick => 60_000,
                Tier::Thorough => 3_000_000,
            },
            max_bytes: 256,
            timeout: Duration::from_secs(20),
        }
    }
    fn rule(&self) -> &'static str {
        "exhaustive: all ordered pairs of texts of at most 4 (quick) / 5 (thorough) lines over {a, b, empty line}, with and without final newline, x context 0..3; generated: pairs of line sequences over a pool with XML/JSON-special, non-ASCII and tab characters (related by random edits), and real (source, formatted) pairs from corpus cells; oracle: chunks applied to the original give the formatted lines, Display->FromStr round trip, json/checkstyle parse (serde_json, strict XML reader) and name the same lines and texts, every hunk line sits at its stated line number in both texts, reports empty iff same lines; non-trivial = at least 2 hunks or a change at the first/last line; distinct by case content"
    }
    fn assumptions(&self) -> Vec<&'static str> {
        vec!["the lines of a text are those of str::lines() plus a final empty line when the text ends with a terminator (the convention of the diff the reports are built on); file names are not varied", "each enumerated case is one first text against every second text (counted as one evaluation)"]
    }
    fn enumeration_exhaustive(&self) -> bool {
        true
    }
    fn enum_len(&self, g: &GenCtx) -> usize {
        small_texts(if g.tier == Tier::Quick { 4 } else { 5 }).len()
    }
    fn enum_case(&self, g: &GenCtx, i: usize) -> Option<Value> {
        let max = if g.tier == Tier::Quick { 4 } else { 5 };
        Some(json!({"kind": "block", "max": max, "index": i}))
    }
    fn generate(&self, c: &mut Choices<'_>, g: &GenCtx) -> Value {
        if c.chance(1, 4) && !g.corpus.chunk_index.is_empty() {
            // a real source/formatted pair
            let space = crate::gen::conf::ConfSpace { max_extra: 1, ..Default::default() };
            let k = c.below(crate::gen::grid::grid_size(&g.corpus));
            let cell = crate::gen::grid::grid_cell(&g.corpus, k, &space, false);
            return json!({"kind": "real", "src": cell.src.text, "opts": opts_to(&cell.opts)});
        }
        let n = c.below(9);
        let mut a: Vec<String> = (0..n).map(|_| (*c.pick(LINE_POOL)).to_string()).collect();
        if c.chance(1, 12) {
            // control characters (known class for checkstyle)
            let i = c.below(a.len().max(1));
            if i < a.len() {
                a[i].push(['\u{1}', '\u{8}', '\u{1b}', '\u{c}'][c.below(4)]);
            }
        }
        let mut b = a.clone();
        let edits = c.below(5);
        for _ in 0..edits {
            let pos = c.below(b.len() + 1);
            match c.below(3) {
                0 => b.insert(pos, (*c.pick(LINE_POOL)).to_string()),
                1 => {
                    if pos < b.len() {
                        b.remove(pos);
                    }
                }
                _ => {
                    if pos < b.len() {
                        b[pos] = (*c.pick(LINE_POOL)).to_string();
                    }
                }
            }
        }
        let fin = |v: &Vec<String>, nl: bool| if nl && !v.is_empty() { format!("{}\n", v.join("\n")) } else { v.join("\n") };
        let (na, nb) = (c.chance(3, 4), c.chance(3, 4));
        let (orig, fmt) = if c.flip() { (fin(&a, na), fin(&b, nb)) } else { (fin(&b, nb), fin(&a, na)) };
        json!({"kind": "pair", "orig": orig, "fmt": fmt})
    }
    fn run(&self, case: &Value, _r: &RunCtx) -> Outcome {
        let judge_control = case["judge_known"].as_bool().unwrap_or(false);
        let mut o = Outcome::pass();
        match case["kind"].as_str().unwrap_or("") {
            "block" => {
                let texts = small_texts(case["max"].as_u64().unwrap_or(4) as usize);
                let i = case["index"].as_u64().unwrap_or(0) as usize;
                let a = &texts[i.min(texts.len() - 1)];
                let mut nontrivial = false;
                for b in &texts {
                    match check_pair(a, b, &[0, 1, 2, 3], judge_control) {
                        Ok((h, e)) => nontrivial |= h >= 2 || e > 0,
                        Err((class, msg)) => {
                            return Outcome::fail(class, format!("original {a:?}, formatted {b:?}: {msg}")).nontrivial(true);
                        }
                    }
                }
                o.nontrivial = nontrivial;
                o.labels.push(format!("block:{}-pairs-x4-contexts", texts.len()));
            }
            kind => {
                let (orig, fmt) = if kind == "real" {
                    let src = case["src"].as_str().unwrap_or("").to_owned();
                    let opts = opts_from(&case["opts"]);
                    let r = format_text(&src, &opts);
                    if !r.emitted() {
                        return Outcome::skip("real-pair-not-formatted");
                    }
                    o.labels.push("real-pair".into());
                    (src, r.text)
                } else {
                    (case["orig"].as_str().unwrap_or("").to_owned(), case["fmt"].as_str().unwrap_or("").to_owned())
                };
                match check_pair(&orig, &fmt, &[0, 1, 2, 3], judge_control) {
                    Ok((h, e)) => {
                        if e >= 1000 {
                            o.excluded.push("known-class:checkstyle-control-character".into());
                        }
                        let e = e % 1000;
                        o.nontrivial = h >= 2 || e > 0;
                        if h >= 2 {
                            o.labels.push("hunks>=2".into());
                        }
                        if e > 0 {
                            o.labels.push("edge-change".into());
                        }
                        if !orig.is_ascii() || !fmt.is_ascii() {
                            o.labels.push("non-ascii".into());
                        }
                    }
                    Err((class, msg)) => {
                        return Outcome::fail(class, format!("original {orig:?}\nformatted {fmt:?}\n{msg}")).nontrivial(true);
                    }
                }
            }
        }
        o
    }
}
