//! C02 Formatting is idempotent.

use std::time::Duration;

use serde_json::{json, Value};

use crate::choices::Choices;
use crate::engine::{GenCtx, Outcome, Params, Property, RunCtx, Tier};
use crate::fmt::format_text;
use crate::gen::conf::{gen_conf, ConfSpace};
use crate::gen::source::{gen_source, SrcSpace};
use crate::props::common::*;

pub struct C02;

/// Option space of C02 (values quarantined as known-finding classes are listed in DESIGN §6).
pub const SPACE: ConfSpace = ConfSpace {
    // quarantined as known-finding classes (see known_findings.json): these values make
    // rustfmt non-idempotent on a large part of the corpus
    exclude: &["blank_lines_lower_bound"],
    exclude_values: &[("indent_style", "Visual"), ("imports_indent", "Visual")],
    allow_2027: true,
    min_edition: "2015",
    max_extra: 4,
    whitespace_axes: false,
};

/// `corpus:path#ci+n` -> `corpus:path#ci` (findings are keyed by the first chunk of a run).
pub fn chunk_key(origin: &str) -> String {
    origin.split('+').next().unwrap_or(origin).to_owned()
}

impl Property for C02 {
    fn id(&self) -> &'static str {
        "C02"
    }
    fn params(&self, tier: Tier) -> Params {
        Params {
            cases: match tier {
                Tier::Quick => 0,
                Tier::Thorough => 0,
            },
            max_bytes: 768,
            timeout: Duration::from_secs(20),
        }
    }
    fn rule(&self) -> &'static str {
        "corpus chunks / generated programs, re-laid out, under a random configuration; oracle: fmt(fmt(x)) == fmt(x) byte for byte and the second run reports no error; judged only when the first run reports no error; non-trivial = first run changed the text and some output line is within 3 columns of max_width; distinct by case content"
    }
    fn enum_len(&self, g: &GenCtx) -> usize {
        grid_len(g, 150_000, usize::MAX)
    }
    fn enum_case(&self, g: &GenCtx, i: usize) -> Option<Value> {
        let n = self.enum_len(g);
        let cell = grid_pick(g, "C02", n, i, &SPACE, false);
        if g.known_sigs.contains(&format!("nonidempotent:{}", chunk_key(&cell.src.origin)))
            || g.known_sigs.contains(&format!("second-run-error:{}", chunk_key(&cell.src.origin)))
        {
            return None;
        }
        Some(cell_case(&cell))
    }
    fn generate(&self, c: &mut Choices<'_>, g: &GenCtx) -> Value {
        let s = gen_source(c, g, &SrcSpace::default());
        let space = ConfSpace {
            min_edition: min_edition_static(&s.edition),
            ..ConfSpace::default()
        };
        let opts = gen_conf(c, &space);
        json!({"src": s.text, "opts": opts_to(&opts), "origin": s.origin, "layout": s.layout})
    }
    fn run(&self, case: &Value, _r: &RunCtx) -> Outcome {
        let src = case["src"].as_str().unwrap_or("");
        let opts = opts_from(&case["opts"]);
        let origin = case["origin"].as_str().unwrap_or("");
        let o1 = format_text(src, &opts);
        if !o1.clean() {
            return Outcome::skip(if o1.has_parsing_errors {
                "first-run-parse-error"
            } else {
                "first-run-reports-error"
            });
        }
        // comments must stand at item / statement / list-element boundaries or inside
        // function-body statements (the property's quantifier)
        let edition = crate::fmt::opt(&opts, "edition").unwrap_or("2015").to_owned();
        match comment_positions(src, &edition) {
            Some(ps) => {
                if ps.iter().any(|p| p.2 == CommentPos::Odd) {
                    return Outcome::skip("comment-outside-claimed-positions");
                }
            }
            None => return Outcome::skip("oracle-parse-failed"),
        }
        let o2 = format_text(&o1.text, &opts);
        let mut o = Outcome::pass();
        o.labels.extend(conf_labels(&opts));
        let w = crate::fmt::opt_usize(&opts, "max_width", 100);
        let near = o1
            .text
            .lines()
            .any(|l| l.chars().count() + 3 >= w && l.chars().count() <= w);
        o.nontrivial = o1.text != src && near;
        if o1.text != src {
            o.labels.push("changed".into());
        }
        if !o2.clean() {
            let mut f = Outcome::fail(
                format!("second-run-error:{}", chunk_key(origin)),
                format!(
                    "the second run reports an error: err={:?} parse={} panic={:?}\n{}",
                    o2.err, o2.has_parsing_errors, o2.escaped_panic, o2.report
                ),
            );
            f.labels = o.labels;
            f.nontrivial = true;
            return f;
        }
        if o2.text != o1.text {
            let mut f = Outcome::fail(
                format!("nonidempotent:{}", chunk_key(origin)),
                format!("fmt(fmt(x)) != fmt(x); {}", first_diff(&o1.text, &o2.text)),
            );
            f.labels = o.labels;
            f.nontrivial = true;
            return f;
        }
        o
    }
}
