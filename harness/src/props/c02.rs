//! C02 Formatting is idempotent.

use std::time::Duration;

use serde_json::{json, Value};

use crate::choices::Choices;
use crate::engine::{GenCtx, Outcome, Params, Property, RunCtx, Tier};
use crate::fmt::format_text;
use crate::gen::conf::ConfSpace;
use crate::props::common::*;

pub struct C02;

/// Option space of C02 (values quarantined as known-finding classes are listed in DESIGN §6).
pub const SPACE: ConfSpace = ConfSpace {
    // quarantined as known-finding classes (see known_findings.json): these values make
    // rustfmt non-idempotent on a large part of the corpus
    exclude: &["blank_lines_lower_bound"],
    exclude_values: &[("indent_style", "Visual"), ("imports_indent", "Visual")],
    allow_2027: true,
    min_edition: "2015",
    max_extra: 4,
    whitespace_axes: false,
};

/// `corpus:path#ci+n` -> `corpus:path#ci` (findings are keyed by the first chunk of a run).
pub fn chunk_key(origin: &str) -> String {
    origin.split('+').next().unwrap_or(origin).to_owned()
}

impl Property for C02 {
    fn id(&self) -> &'static str {
        "C02"
    }
    fn params(&self, tier: Tier) -> Params {
        Params {
            cases: match tier {
                Tier::Quick => 20_000,
                Tier::Thorough => 400_000,
            },
            max_bytes: 768,
            timeout: Duration::from_secs(20),
        }
    }
    fn rule(&self) -> &'static str {
        "corpus grid cells (chunk x layout x configuration), plus generated impl / trait blocks holding every kind of associated item in random order (with and without reorder_impl_items, width 30..110) and generated line / doc comments whose lines end near the wrapping boundary under wrap_comments (comment_width 40..100), and vertically aligned struct / struct-literal / enum lists in groups separated by empty or blank-only lines under the alignment thresholds; oracle: fmt(fmt(x)) == fmt(x) byte for byte and the second run reports no error; judged only when the first run reports no error; non-trivial = first run changed the text and some output line is within 3 columns of max_width; distinct by case content"
    }
    fn enum_len(&self, g: &GenCtx) -> usize {
        grid_len(g, 150_000, usize::MAX)
    }
    fn enum_case(&self, g: &GenCtx, i: usize) -> Option<Value> {
        let n = self.enum_len(g);
        let cell = grid_pick(g, "C02", n, i, &SPACE, false);
        if g.known_sigs.contains(&format!("nonidempotent:{}", chunk_key(&cell.src.origin)))
            || g.known_sigs.contains(&format!("second-run-error:{}", chunk_key(&cell.src.origin)))
        {
            return None;
        }
        Some(cell_case(&cell))
    }
    fn generate(&self, c: &mut Choices<'_>, _g: &GenCtx) -> Value {
        // targeted programs: (a) impl / trait blocks with every kind of associated item in a random
        // order, with and without reorder_impl_items; (b) comments whose lines end near the
        // wrapping boundary under wrap_comments; (c) aligned field / discriminant groups
        if c.chance(1, 4) {
            // (c) vertically aligned lists in groups separated by empty or blank-only lines
            let mut v = crate::props::c03::gen_aligned(c);
            v["tags"] = json!(["aligned-groups"]);
            return v;
        }
        if c.flip() {
            let mut items: Vec<String> = vec![];
            let n = 2 + c.below(7);
            for i in 0..n {
                items.push(match c.below(6) {
                    0 => format!("type T{i} = u{};", [8, 16, 32][c.below(3)]),
                    1 => format!("const C{i}: usize = {};", c.below(100)),
                    2 => format!("mac_{i}!();"),
                    3 => format!("fn f{i}(&self) -> usize {{ {} }}", c.below(10)),
                    4 => format!("mac_{i}! {{ a, b }}"),
                    _ => format!("fn g{i}() {{}}"),
                });
            }
            let head = *c.pick(&["impl Foo", "impl Tr for Foo", "impl<T: Clone> Tr<T> for Foo<T>"]);
            let src = format!("{head} {{\n{}\n}}\n", items.iter().map(|x| format!("    {x}")).collect::<Vec<_>>().join("\n"));
            let mut opts: crate::fmt::Opts = vec![];
            if c.chance(2, 3) {
                opts.push(("reorder_impl_items".into(), "true".into()));
            }
            if c.chance(1, 3) {
                opts.push(("max_width".into(), (30 + c.below(80)).to_string()));
            }
            return json!({"src": src, "opts": opts_to(&opts), "origin": "prog", "layout": 0, "tags": ["impl-items"]});
        }
        {
            const WORDS: &[&str] = &["a", "to", "the", "word", "comment", "wrapping", "boundary", "exactly", "implementation", "x", "https://example.com/a/very/long/url/that/cannot/be/broken", "`code`"];
            let style = *c.pick(&["//", "///", "//!"]);
            let indent = if style == "//!" { 0 } else { c.below(3) * 4 };
            let lines = 1 + c.below(4);
            let mut body = String::new();
            for _ in 0..lines {
                let target = 30 + c.below(90);
                let mut l = String::new();
                while l.len() < target {
                    if !l.is_empty() {
                        l.push(' ');
                    }
                    l.push_str(*c.pick(WORDS));
                }
                body.push_str(&format!("{}{style} {l}\n", " ".repeat(indent)));
            }
            let src = if indent == 0 { format!("{body}fn f() {{}}\n") } else { format!("mod m {{\n{body}{}fn f() {{}}\n}}\n", " ".repeat(indent)) };
            let src = if style == "//!" { body.clone() + "fn f() {}\n" } else { src };
            let opts: crate::fmt::Opts = vec![("wrap_comments".into(), "true".into()), ("comment_width".into(), (40 + c.below(61)).to_string()), ("max_width".into(), (60 + c.below(60)).to_string())];
            return json!({"src": src, "opts": opts_to(&opts), "origin": "prog", "layout": 0, "tags": ["wrapped-comment"]});
        }
    }
    fn run(&self, case: &Value, _r: &RunCtx) -> Outcome {
        let src = case["src"].as_str().unwrap_or("");
        let opts = opts_from(&case["opts"]);
        let origin = case["origin"].as_str().unwrap_or("");
        let o1 = format_text(src, &opts);
        if !o1.clean() {
            return Outcome::skip(if o1.has_parsing_errors {
                "first-run-parse-error"
            } else {
                "first-run-reports-error"
            });
        }
        // comments must stand at item / statement / list-element boundaries or inside
        // function-body statements (the property's quantifier)
        let edition = crate::fmt::opt(&opts, "edition").unwrap_or("2015").to_owned();
        match comment_positions(src, &edition) {
            Some(ps) => {
                if ps.iter().any(|p| p.2 == CommentPos::Odd) {
                    return Outcome::skip("comment-outside-claimed-positions");
                }
            }
            None => return Outcome::skip("oracle-parse-failed"),
        }
        let o2 = format_text(&o1.text, &opts);
        let mut o = Outcome::pass();
        o.labels.extend(conf_labels(&opts));
        let w = crate::fmt::opt_usize(&opts, "max_width", 100);
        let near = o1
            .text
            .lines()
            .any(|l| l.chars().count() + 3 >= w && l.chars().count() <= w);
        o.nontrivial = o1.text != src && near;
        if o1.text != src {
            o.labels.push("changed".into());
        }
        if !o2.clean() {
            let mut f = Outcome::fail(
                format!("second-run-error:{}", chunk_key(origin)),
                format!(
                    "the second run reports an error: err={:?} parse={} panic={:?}\n{}",
                    o2.err, o2.has_parsing_errors, o2.escaped_panic, o2.report
                ),
            );
            f.labels = o.labels;
            f.nontrivial = true;
            return f;
        }
        if o2.text != o1.text {
            let mut f = Outcome::fail(
                format!("nonidempotent:{}", chunk_key(origin)),
                format!("fmt(fmt(x)) != fmt(x); {}", first_diff(&o1.text, &o2.text)),
            );
            f.labels = o.labels;
            f.nontrivial = true;
            return f;
        }
        o
    }
}
