//! C07 Line-width and trailing-whitespace diagnostics are exact.

use std::collections::BTreeSet;
use std::io::Write;
use std::process::{Command, Stdio};
use std::time::Duration;

use serde_json::{json, Value};

use crate::choices::Choices;
use crate::engine::{GenCtx, Outcome, Params, Property, RunCtx, Tier};
use crate::fmt::{format_text, opt, opt_bool, opt_usize, Opts};
use crate::gen::conf::{gen_conf, ConfSpace};
use crate::gen::grid::byte_stream;
use crate::lex::{lex, TK};
use crate::parse::{mac_ranges, skip_nodes, SkipNode};
use crate::props::common::*;

pub struct C07;

pub const SPACE: ConfSpace = ConfSpace {
    exclude: &["error_on_line_overflow", "error_on_unformatted", "max_width", "tab_spaces", "hard_tabs", "file_lines"],
    exclude_values: &[],
    allow_2027: true,
    min_edition: "2015",
    max_extra: 3,
    whitespace_axes: false,
};

fn set(opts: &mut Opts, k: &str, v: String) {
    opts.retain(|(a, _)| a != k);
    opts.push((k.to_string(), v));
}

/// The diagnostic axes of this property, drawn from a choice stream.
fn diag_axes(c: &mut Choices<'_>, opts: &mut Opts) {
    let w = match c.weighted(&[3, 3, 2, 1]) {
        0 => c.range(20, 40),
        1 => c.range(41, 80),
        2 => c.range(81, 120),
        _ => c.range(121, 200),
    };
    set(opts, "max_width", w.to_string());
    set(opts, "tab_spaces", (1 + c.below(8)).to_string());
    set(opts, "hard_tabs", c.chance(1, 3).to_string());
    let (ov, un) = match c.weighted(&[5, 3, 1, 1]) {
        0 => (true, true),
        1 => (true, false),
        2 => (false, true),
        _ => (false, false),
    };
    set(opts, "error_on_line_overflow", ov.to_string());
    set(opts, "error_on_unformatted", un.to_string());
}

const LONG_IDENTS: &[&str] = &["alpha_beta_gamma_delta_epsilon", "a_really_quite_long_identifier_name_number_one", "x", "configuration_value_for_the_current_session", "yy", "some_function_name_that_goes_on_and_on_and_on_for_a_while"];

fn long_str(c: &mut Choices<'_>) -> String {
    let n = c.range(5, 160);
    let mut s = String::new();
    let words = ["lorem", "ipsum", "dolor", "sit", "amet", "consectetur", "x", "\\n", "é", "—"];
    while s.chars().count() < n {
        s.push_str(*c.pick(&words));
        s.push(' ');
    }
    s.trim_end().to_string()
}

fn blanks(c: &mut Choices<'_>) -> String {
    match c.weighted(&[3, 2, 1]) {
        0 => String::new(),
        1 => " ".repeat(1 + c.below(3)),
        _ => "\t".into(),
    }
}

fn gen_stmt(c: &mut Choices<'_>, labels: &mut BTreeSet<&'static str>) -> String {
    match c.weighted(&[4, 3, 2, 3, 3, 2, 2, 2, 2, 1, 2]) {
        0 => format!("let s = \"{}\";", long_str(c)),
        1 => format!("// {}{}", long_str(c), blanks(c)),
        2 => {
            labels.insert("block-comment-with-trailing-blanks");
            format!("/* {}{}\n   {}{}\n */", long_str(c), blanks(c), long_str(c), blanks(c))
        }
        3 => {
            let n = 1 + c.below(4);
            let args: Vec<&str> = (0..n).map(|_| *c.pick(LONG_IDENTS)).collect();
            format!("let value = {}({});", c.pick(LONG_IDENTS), args.join(", "))
        }
        4 => {
            labels.insert("skip-stmt");
            format!("#[rustfmt::skip]\nlet   y  =  [1,2,   3, {}, {}];{}", c.pick(LONG_IDENTS), c.pick(LONG_IDENTS), blanks(c))
        }
        5 => {
            labels.insert("verbatim-macro");
            format!("mac!{{ {} => ; {}{}\n  , {} }}", c.pick(LONG_IDENTS), long_str(c).replace('\\', "").replace('—', "-"), blanks(c), c.pick(LONG_IDENTS))
        }
        6 => {
            labels.insert("multi-line-string");
            format!("let s = \"{}{}\n   {}{}\n end\";", long_str(c), blanks(c), long_str(c), blanks(c))
        }
        7 => {
            labels.insert("skip-arm");
            format!("match x {{\n#[rustfmt::skip]\n1   =>   {}({}, {}),{}\n_ => {}(),\n}}", c.pick(LONG_IDENTS), c.pick(LONG_IDENTS), c.pick(LONG_IDENTS), blanks(c), c.pick(LONG_IDENTS))
        }
        8 => {
            let n = 2 + c.below(4);
            let mut s = String::from("let r = items");
            for _ in 0..n {
                s.push_str(&format!(".{}(|v| v.{})", c.pick(LONG_IDENTS), c.pick(LONG_IDENTS)));
            }
            s.push(';');
            s
        }
        9 => {
            labels.insert("quote-char-literal");
            format!("let q = {}; let after = {};", *c.pick(&["'\"'", "'\\\"'", "b'\"'", "'\\''"]), c.pick(LONG_IDENTS))
        }
        _ => {
            labels.insert("raw-string");
            format!("let s = r#\"{}{}\n{}\"#;", long_str(c).replace('\\', ""), blanks(c), long_str(c).replace('\\', ""))
        }
    }
}

fn gen_src(c: &mut Choices<'_>) -> (String, Vec<&'static str>) {
    let mut labels: BTreeSet<&'static str> = BTreeSet::new();
    let mut src = String::new();
    let n = 1 + c.below(5);
    for i in 0..n {
        match c.weighted(&[6, 2, 2, 2, 1, 1]) {
            0 => {
                if c.chance(1, 4) {
                    src.push_str(&format!("/// {}\n", long_str(c)));
                }
                src.push_str(&format!("fn f{i}() {{\n"));
                let k = 1 + c.below(5);
                for _ in 0..k {
                    src.push_str(&gen_stmt(c, &mut labels));
                    src.push('\n');
                }
                src.push_str("}\n");
            }
            1 => {
                labels.insert("skip-item");
                src.push_str(&format!("#[rustfmt::skip]\nfn  g{i} ( ) {{ let a  = {}({}, {});{}\n let b = \"{}\";{}\n}}\n", c.pick(LONG_IDENTS), c.pick(LONG_IDENTS), c.pick(LONG_IDENTS), blanks(c), long_str(c), blanks(c)));
            }
            2 => {
                labels.insert("skip-field");
                src.push_str(&format!("struct S{i} {{\n#[rustfmt::skip]\nfield  :  HashMap<{}, {}>,{}\nb: u8,\n}}\n", c.pick(LONG_IDENTS), c.pick(LONG_IDENTS), blanks(c)));
            }
            3 => {
                labels.insert("macro-def");
                src.push_str(&format!("macro_rules! m{i} {{\n    ($a:expr, {}) => {{{}\n        {}($a, \"{}\"){}\n    }};\n}}\n", c.pick(LONG_IDENTS), blanks(c), c.pick(LONG_IDENTS), long_str(c), blanks(c)));
            }
            4 => src.push_str(&format!("const C{i}: &str = \"{}\";\n", long_str(c))),
            _ => {
                src.push_str(&format!("// {}{}\n", long_str(c), blanks(c)));
            }
        }
        if c.chance(1, 4) {
            src.push_str(&format!("{}\n", blanks(c)));
        }
    }
    if c.chance(1, 8) {
        // an attribute diagnostic in the same run (deprecated spelling / unknown rustfmt attribute)
        labels.insert("attribute-diagnostic");
        src.push_str(*c.pick(&["#[rustfmt_skip]\nfn  deprecated_spelling ( ) { }\n", "#[rustfmt::bogus]\nfn unknown_attribute() {}\n"]));
    }
    (src, labels.into_iter().collect())
}

#[derive(Debug, Clone, Copy, PartialEq, Eq, PartialOrd, Ord)]
enum Kind {
    Overflow,
    Trailing,
}

struct LineInfo {
    width: usize,
    width_trimmed: usize,
    trailing_blank: bool,
    comment_line: bool,
    has_string: bool,
    /// rustfmt's own string/comment scanner is known to misread this line (known findings)
    fuzzy: Option<&'static str>,
}

fn line_infos(text: &str, tab_spaces: usize) -> Vec<LineInfo> {
    let toks = lex(text);
    let mut out = vec![];
    let mut start = 0usize;
    let mut ti = 0usize;
    while start < text.len() {
        let Some(rel) = text[start..].find('\n') else { break };
        let end = start + rel; // offset of '\n'
        let line = &text[start..end];
        let mut width = 0usize;
        let mut last_ws = false;
        for ch in line.chars() {
            if ch == '\r' {
                continue;
            }
            width += if ch == '\t' { tab_spaces } else { 1 };
            last_ws = ch.is_whitespace();
        }
        let trimmed: String = line.chars().filter(|c| *c != '\r').collect();
        let width_trimmed: usize = trimmed.trim_end().chars().map(|ch| if ch == '\t' { tab_spaces } else { 1 }).sum();
        // tokens overlapping [start, end]
        while ti < toks.len() && toks[ti].hi <= start {
            ti += 1;
        }
        let mut comment_line = false;
        let mut has_string = false;
        let mut fuzzy: Option<&'static str> = None;
        let mut k = ti;
        while k < toks.len() && toks[k].lo <= end {
            let t = &toks[k];
            let is_block = matches!(t.kind, TK::BlockComment | TK::DocBlock { .. });
            let is_line = matches!(t.kind, TK::LineComment | TK::DocLine { .. });
            if is_block && t.lo < end && end < t.hi {
                comment_line = true;
            }
            if is_line && t.hi == end {
                comment_line = true;
            }
            if (t.kind == TK::RawIdent || (t.kind == TK::Lifetime && t.text(text).contains("r#"))) && t.lo >= start && t.lo < end {
                // `r#name` (also in a raw lifetime `'r#name`) is taken for the start of a raw string
                fuzzy = fuzzy.or(Some("raw-identifier-taken-for-string"));
            }
            if t.kind.is_string_like() {
                let lo = t.lo.max(start);
                let hi = t.hi.min(end);
                if lo < hi {
                    has_string = true;
                    // only the closing quote of a raw string on this line: rustfmt's scanner
                    // does not count it
                    if matches!(t.kind, TK::RawStr | TK::RawByteStr | TK::RawCStr) && hi == t.hi && text[lo..hi].trim_start_matches('"').chars().all(|c| c == '#') {
                        fuzzy = fuzzy.or(Some("raw-string-closing-quote-not-counted"));
                    }
                }
            }
            k += 1;
        }
        out.push(LineInfo {
            width,
            width_trimmed,
            trailing_blank: last_ws,
            comment_line,
            has_string,
            fuzzy,
        });
        start = end + 1;
    }
    out
}

fn line_of(text: &str, pos: usize) -> usize {
    text[..pos.min(text.len())].matches('\n').count() + 1
}

fn byte_ranges_to_lines(text: &str, ranges: &[(usize, usize)]) -> Vec<(usize, usize)> {
    ranges.iter().map(|(lo, hi)| (line_of(text, *lo), line_of(text, hi.saturating_sub(1).max(*lo)))).collect()
}

fn in_lines(ranges: &[(usize, usize)], l: usize) -> bool {
    ranges.iter().any(|(lo, hi)| *lo <= l && l <= *hi)
}

impl Property for C07 {
    fn id(&self) -> &'static str {
        "C07"
    }
    fn params(&self, tier: Tier) -> Params {
        Params {
            cases: match tier {
                Tier::Quick => 6_000,
                Tier::Thorough => 150_000,
            },
            max_bytes: 1024,
            timeout: Duration::from_secs(20),
        }
    }
    fn rule(&self) -> &'static str {
        "corpus grid cells and generated sources (long strings, long/multi-line comments with trailing blanks, unbreakable calls and chains, multi-line and raw strings, macro bodies left verbatim, macro definitions, skip-marked items / statements / arms / fields containing long lines and trailing blanks) x max_width 20..200 x tab_spaces 1..8 x hard_tabs x the four error_on_line_overflow / error_on_unformatted combinations x up to 3 layout options; optionally file_lines over an already formatted text; oracle: an independent per-line recomputation over the emitted text (character count with tabs as tab_spaces, last character blank, comment-line and string-literal classification from rustc_lexer tokens, skipped code from an independent parse of the emitted text: nodes carrying a skip attribute, or macro invocations for ranges rustfmt recorded as left verbatim) gives the exact set of (line, kind) that must be reported; compared in both directions with the report entries read through the hook, including file name, found/maximum widths; every reported line makes the run count as failed (also next to attribute diagnostics); when a trailing blank must be reported the binary (plain, or with --check) must exit 1 and name the line; non-trivial = at least one line of the emitted text is too wide or ends in a blank; distinct by case content"
    }
    fn assumptions(&self) -> Vec<&'static str> {
        vec![
            "width is counted in characters (a tab as tab_spaces), as the statement says; a line that is too wide only because of its trailing blanks may or may not be reported as too wide",
            "the lines holding only the outer attributes of a skipped node are not judged (rustfmt exempts them for items and judges them for statements)",
            "file_lines cases use an input whose formatting keeps the line structure, so input and output line numbers coincide",
        ]
    }
    fn enum_len(&self, g: &GenCtx) -> usize {
        grid_len(g, 60_000, usize::MAX)
    }
    fn enum_case(&self, g: &GenCtx, i: usize) -> Option<Value> {
        let n = self.enum_len(g);
        let cell = grid_pick(g, "C07", n, i, &SPACE, false);
        let key = crate::props::c02::chunk_key(&cell.src.origin);
        if g.known_sigs.iter().any(|s| s.ends_with(&format!("@{key}"))) {
            return None;
        }
        let bytes = byte_stream(&format!("c07/{}", cell.cell), 32);
        let mut c = Choices::new(&bytes);
        let mut opts = cell.opts.clone();
        diag_axes(&mut c, &mut opts);
        let mut v = cell_case(&cell);
        v["opts"] = opts_to(&opts);
        Some(v)
    }
    fn generate(&self, c: &mut Choices<'_>, _g: &GenCtx) -> Value {
        let (src, labels) = gen_src(c);
        let mut opts = gen_conf(c, &SPACE);
        diag_axes(c, &mut opts);
        let file_lines = if c.chance(1, 5) {
            let n = 1 + c.below(2);
            let v: Vec<(usize, usize)> = (0..n)
                .map(|_| {
                    let a = 1 + c.below(30);
                    (a, a + c.below(8))
                })
                .collect();
            Some(v)
        } else {
            None
        };
        json!({"src": src, "opts": opts_to(&opts), "origin": "gen", "gen_labels": labels, "file_lines": file_lines, "binary": c.chance(1, 6), "binary_check": c.flip()})
    }
    fn run(&self, case: &Value, r: &RunCtx) -> Outcome {
        let mut src = case["src"].as_str().unwrap_or("").to_string();
        let mut opts = opts_from(&case["opts"]);
        let origin = case["origin"].as_str().unwrap_or("");
        let key = crate::props::c02::chunk_key(origin);
        let judge_known = case["judge_known"].as_bool().unwrap_or(false) || std::env::var("VP_JUDGE_KNOWN").is_ok();
        let edition = opt(&opts, "edition").unwrap_or("2015").to_owned();
        let max_width = opt_usize(&opts, "max_width", 100);
        let tab_spaces = opt_usize(&opts, "tab_spaces", 4);
        let on_overflow = opt_bool(&opts, "error_on_line_overflow", false);
        let on_unformatted = opt_bool(&opts, "error_on_unformatted", false);
        let mut ranges: Option<Vec<(usize, usize)>> = None;
        if let Some(a) = case["file_lines"].as_array() {
            // file_lines: first settle the text so that line numbers are stable
            let first = format_text(&src, &opts);
            if !first.emitted() || first.text.is_empty() {
                return Outcome::skip("not-emitted");
            }
            src = first.text;
            let v: Vec<(usize, usize)> = a.iter().filter_map(|p| Some((p.get(0)?.as_u64()? as usize, p.get(1)?.as_u64()? as usize))).collect();
            let js: Vec<Value> = v.iter().map(|(a, b)| json!({"file": "stdin", "range": [a, b]})).collect();
            opts.push(("file_lines".into(), Value::Array(js).to_string()));
            ranges = Some(v);
        }
        let out = format_text(&src, &opts);
        if !out.emitted() {
            return Outcome::skip("not-emitted");
        }
        if out.text.is_empty() {
            return Outcome::skip("echoed-to-stdout");
        }
        let text = out.text.replace("\r\n", "\n");
        if ranges.is_some() && text.matches('\n').count() != src.matches('\n').count() {
            return Outcome::skip("file_lines-line-structure-changed");
        }
        let mut o = Outcome::pass();
        o.labels.extend(conf_labels(&opts));
        o.labels.push(format!("diag:overflow={on_overflow},unformatted={on_unformatted}"));
        if let Some(a) = case["gen_labels"].as_array() {
            for l in a {
                o.labels.push(format!("gen:{}", l.as_str().unwrap_or("")));
            }
        }
        let infos = line_infos(&text, tab_spaces);
        // skipped code, independently
        let Some((out_nodes, whole_file)) = skip_nodes(&text, &edition) else {
            return Outcome::skip("oracle-parse-failed");
        };
        if whole_file {
            return Outcome::skip("whole-file-skipped");
        }
        let in_nodes = skip_nodes(&src.replace("\r\n", "\n"), &edition).map(|x| x.0).unwrap_or_default();
        let recordable = |n: &SkipNode| matches!(n.kind, "item" | "assoc" | "foreign" | "stmt");
        // a skipped item/statement keeps its line number iff the code before it keeps its line count
        let rec_in: Vec<&SkipNode> = in_nodes.iter().filter(|n| recordable(n)).collect();
        let rec_out: Vec<&SkipNode> = out_nodes.iter().filter(|n| recordable(n)).collect();
        let src_lf = src.replace("\r\n", "\n");
        let paired = rec_in.len() == rec_out.len();
        let shifted = |i: usize| -> bool { !paired || line_of(&src_lf, rec_in[i].lo) != line_of(&text, rec_out[i].lo) };
        // does rustfmt's line bookkeeping for skipped code break down somewhere in this file?
        // (known finding: first line in input coordinates, last line in output coordinates;
        // relative to the sub-buffer inside expression-level blocks)
        let any_nested = rec_out.iter().any(|n| n.nested) || !paired;
        // the range the known defect records for the i-th skipped item/statement: first line from
        // the input (statements: the line after the attributes; items: the attributes' line),
        // last line from the output
        let proper_first = |t: &str, n: &SkipNode| -> usize {
            let main = n.attrs_hi + t[n.attrs_hi..n.hi].len() - t[n.attrs_hi..n.hi].trim_start().len();
            if n.attrs_hi > n.lo { line_of(t, main).min(line_of(t, n.attrs_hi.saturating_sub(1)) + 1) } else { line_of(t, main) }
        };
        let defect_range = |i: usize| -> (usize, usize) {
            let n_in = rec_in[i];
            let lo = if n_in.kind == "stmt" { proper_first(&src_lf, n_in) } else { line_of(&src_lf, n_in.lo) };
            let n_out = rec_out[i];
            (lo, line_of(&text, n_out.hi.saturating_sub(1).max(n_out.lo)))
        };
        // the lines of the node proper; the lines holding only its outer attributes are formatted code
        let node_lines: Vec<(usize, usize, &SkipNode)> = out_nodes
            .iter()
            .map(|n| {
                let main = n.attrs_hi + text[n.attrs_hi..n.hi].len() - text[n.attrs_hi..n.hi].trim_start().len();
                let first = if n.attrs_hi > n.lo { line_of(&text, main).min(line_of(&text, n.attrs_hi.saturating_sub(1)) + 1) } else { line_of(&text, main) };
                (first, line_of(&text, n.hi.saturating_sub(1).max(n.lo)), n)
            })
            .collect();
        let macs_in = byte_ranges_to_lines(&src_lf, &mac_ranges(&src_lf, &edition).unwrap_or_default());
        let macs = byte_ranges_to_lines(&text, &mac_ranges(&text, &edition).unwrap_or_default());
        let recorded = &out.non_formatted_ranges;
        let skip_lines: Vec<(usize, usize)> = node_lines.iter().map(|(a, b, _)| (*a, *b)).collect();
        // the report
        let mut reported: BTreeSet<(usize, Kind)> = BTreeSet::new();
        for e in &out.errors {
            let k = match e.kind.as_str() {
                "LineOverflow" => Kind::Overflow,
                "TrailingWhitespace" => Kind::Trailing,
                _ => continue,
            };
            if e.file != "<stdin>" {
                return Outcome::fail("wrong-file-name", format!("diagnostic for file {:?}", e.file)).nontrivial(true);
            }
            if !reported.insert((e.line, k)) {
                return Outcome::fail(format!("duplicate-report@{key}"), format!("line {} reported twice as {k:?}", e.line)).nontrivial(true);
            }
            if k == Kind::Overflow {
                let Some(li) = infos.get(e.line.wrapping_sub(1)) else {
                    return Outcome::fail(format!("report-line-out-of-range@{key}"), format!("line {} reported, the text has {} lines", e.line, infos.len())).nontrivial(true);
                };
                let ok_found = e.found == li.width || e.found == li.width.saturating_sub(li.trailing_blank as usize);
                if !ok_found || e.max != max_width {
                    return Outcome::fail(format!("wrong-width-in-report@{key}"), format!("line {} reported as {} wide (maximum {}), it is {} wide and max_width is {max_width}\n{}", e.line, e.found, e.max, li.width, text.lines().nth(e.line - 1).unwrap_or(""))).nontrivial(true);
                }
            }
        }
        let mut any_violating = false;
        let ctx = |l: usize| -> String { format!("line {l}: {:?}\nopts {opts:?}\nrecorded skipped ranges {recorded:?}, skip nodes at lines {skip_lines:?}\n--- emitted ---\n{text}", text.lines().nth(l - 1).unwrap_or("")) };
        let known = |o: &mut Outcome, class: &str| {
            let tag = format!("known-class:{class}");
            if !o.excluded.contains(&tag) {
                o.excluded.push(tag);
            }
        };
        for (i, li) in infos.iter().enumerate() {
            let l = i + 1;
            let selected = ranges.as_ref().map(|v| v.iter().any(|(a, b)| *a <= l && l <= *b)).unwrap_or(true);
            let wide = li.width_trimmed > max_width;
            if wide || li.trailing_blank {
                any_violating = true;
            }
            let exempt_class = !on_unformatted && (li.comment_line || li.has_string);
            let fuzzy = if on_unformatted { None } else { li.fuzzy };
            let node = node_lines.iter().find(|(a, b, _)| *a <= l && l <= *b).map(|(_, _, n)| *n);
            let skipped_rec = in_lines(recorded, l);
            // the lines that hold the outer attributes of a skipped node are copied verbatim with
            // it; rustfmt exempts them for items and judges them for statements: either is accepted
            if node.is_none() && out_nodes.iter().any(|n| line_of(&text, n.lo) <= l && l <= line_of(&text, n.hi.saturating_sub(1).max(n.lo))) {
                let inside_attr = node_lines.iter().any(|(a, _, n)| line_of(&text, n.lo) <= l && l < *a);
                if inside_attr {
                    o.labels.push("attribute-line-of-skipped-node".into());
                    continue;
                }
            }
            let rep_over = reported.contains(&(l, Kind::Overflow));
            let rep_trail = reported.contains(&(l, Kind::Trailing));
            // --- no spurious report -----------------------------------------------------------
            if rep_over && !(li.width > max_width) {
                return Outcome::fail(format!("spurious-overflow@{key}"), format!("reported as too wide but is {} <= {max_width}\n{}", li.width, ctx(l))).nontrivial(true);
            }
            if rep_trail && !li.trailing_blank {
                return Outcome::fail(format!("spurious-trailing@{key}"), format!("reported as ending in a blank but does not\n{}", ctx(l))).nontrivial(true);
            }
            if (rep_over || rep_trail) && !selected {
                return Outcome::fail(format!("reported-outside-file-lines@{key}"), format!("reported although outside the selected ranges {ranges:?}\n{}", ctx(l))).nontrivial(true);
            }
            if rep_over && !on_overflow {
                return Outcome::fail(format!("overflow-reported-while-disabled@{key}"), ctx(l)).nontrivial(true);
            }
            if (rep_over || rep_trail) && exempt_class {
                if let Some(f) = fuzzy {
                    if !judge_known {
                        known(&mut o, &format!("scanner:{f}"));
                        continue;
                    }
                    return Outcome::fail(format!("reported-on-exempt-line/scanner:{f}"), ctx(l)).nontrivial(true);
                }
                return Outcome::fail(format!("reported-on-exempt-line@{key}"), format!("a comment/string line is reported with error_on_unformatted off\n{}", ctx(l))).nontrivial(true);
            }
            if let (true, Some(n)) = (rep_over || rep_trail, node) {
                let idx = rec_out.iter().position(|m| m.lo == n.lo && m.hi == n.hi);
                let class = match idx {
                    // only skipped items and statements are recorded as skipped; the lines of a
                    // skipped expression, field, variant, parameter or match arm are reported
                    None => Some("skipped-subnode-reported"),
                    // the node sits in a buffer of its own, or its line number changed and the
                    // recorded range is exactly the one the known defect produces and misses `l`
                    Some(_) if n.nested || !paired => Some("skipped-range-misplaced"),
                    Some(i) if shifted(i) && {
                        let r = defect_range(i);
                        recorded.contains(&r) && !(r.0 <= l && l <= r.1)
                    } =>
                    {
                        Some("skipped-range-misplaced")
                    }
                    Some(_) => None,
                };
                match class {
                    Some(c) if !judge_known => {
                        known(&mut o, c);
                        continue;
                    }
                    Some(c) => return Outcome::fail(format!("reported-inside-skipped-code/{c}"), format!("a line of skip-marked code ({}) is reported\n{}", n.kind, ctx(l))).nontrivial(true),
                    None => return Outcome::fail(format!("reported-inside-skipped-code@{key}"), format!("a line of skip-marked code ({}) is reported\n{}", n.kind, ctx(l))).nontrivial(true),
                }
            }
            // --- nothing missing ----------------------------------------------------------------
            let expect_over = wide && on_overflow;
            let expect_trail = li.trailing_blank;
            if !(expect_over || expect_trail) {
                continue;
            }
            if !selected {
                o.labels.push("exempt:outside-file-lines".into());
                continue;
            }
            if exempt_class {
                o.labels.push("exempt:comment-or-string".into());
                continue;
            }
            if node.is_some() {
                o.labels.push("exempt:skipped".into());
                continue;
            }
            let missing = (expect_over && !rep_over) || (expect_trail && !rep_trail);
            if !missing {
                if rep_over {
                    o.labels.push("reported:overflow".into());
                }
                if rep_trail {
                    o.labels.push("reported:trailing".into());
                }
                continue;
            }
            let what = if expect_over && !rep_over { "overflow" } else { "trailing" };
            if skipped_rec {
                // rustfmt recorded the line as copied verbatim: legitimate for a macro it could
                // not format; anything else is an exemption the statement does not allow
                if in_lines(&macs, l) {
                    o.labels.push("exempt:verbatim-macro".into());
                    continue;
                }
                // the recorded range is what the known bookkeeping defect produces: the input
                // line numbers of a macro call rustfmt gave up on, or a range that starts at the
                // input line of a skipped node whose line number changed
                let misplaced = recorded.iter().filter(|(a, b)| *a <= l && l <= *b).any(|r| {
                    macs_in.iter().any(|m| m == r) || (paired && (0..rec_in.len()).any(|i| !rec_out[i].nested && shifted(i) && defect_range(i) == *r))
                });
                if any_nested || misplaced {
                    if !judge_known {
                        known(&mut o, "skipped-range-misplaced");
                        continue;
                    }
                    return Outcome::fail("exempted-without-skip/skipped-range-misplaced", format!("rustfmt exempts the line as skipped, but it is neither in skip-marked code nor in a macro\n{}", ctx(l))).nontrivial(true);
                }
                return Outcome::fail(format!("exempted-without-skip@{key}"), format!("rustfmt exempts the line as skipped, but it is neither in skip-marked code nor in a macro\n{}", ctx(l))).nontrivial(true);
            }
            if let Some(f) = fuzzy {
                if !judge_known {
                    known(&mut o, &format!("scanner:{f}"));
                    continue;
                }
                return Outcome::fail(format!("missing-{what}/scanner:{f}"), ctx(l)).nontrivial(true);
            }
            if what == "overflow" {
                return Outcome::fail(format!("missing-overflow@{key}"), format!("{} wide (max_width {max_width}) but not reported\n{}", li.width_trimmed, ctx(l))).nontrivial(true);
            }
            return Outcome::fail(format!("missing-trailing@{key}"), format!("ends in a blank but is not reported\n{}", ctx(l))).nontrivial(true);
        }
        for (l, k) in &reported {
            if *l == 0 || *l > infos.len() {
                return Outcome::fail(format!("report-line-out-of-range@{key}"), format!("line {l} reported as {k:?}, the text has {} lines", infos.len())).nontrivial(true);
            }
        }
        o.labels.sort();
        o.labels.dedup();
        // the summary flags and the binary's exit status
        let any_trailing_reported = reported.iter().any(|(_, k)| *k == Kind::Trailing);
        if any_trailing_reported && !(out.has_operational_errors && out.has_unformatted_code_errors) {
            return Outcome::fail("trailing-blank-flags", "a trailing blank is reported but the summary flags are not set".to_string()).nontrivial(true);
        }
        // any reported line makes the run fail (exit status 1 of the binary = operational error)
        if !reported.is_empty() && !out.has_operational_errors {
            return Outcome::fail("reported-line-without-failure-flag", format!("{} line(s) are reported but the run does not count as failed (other diagnostics in the run: {:?})", reported.len(), out.errors.iter().map(|e| e.kind.clone()).collect::<BTreeSet<_>>())).nontrivial(true);
        }
        if any_trailing_reported && case["binary"].as_bool() == Some(true) && ranges.is_none() {
            let cfg: Vec<String> = opts.iter().map(|(k, v)| format!("{k}={v}")).collect();
            let mut cmd = Command::new(r.bin_dir.join("rustfmt"));
            // (the exit status must not depend on --check: the text is settled, so check mode
            // finds no difference, and the blank is still there)
            let mut with_check = case["binary_check"].as_bool() == Some(true);
            if with_check {
                // only when the emitted text is a fixed point that still carries the blank
                let again = format_text(&text, &opts);
                with_check = again.text == text && again.has_operational_errors && again.has_unformatted_code_errors;
            }
            if with_check {
                cmd.arg("--check");
                o.labels.push("binary-with-check".into());
            }
            let stdin_text: &str = if with_check { &text } else { &src };
            // the --check variant names a real file (the binary computes the exit status of
            // path inputs and of standard input in different places)
            let file = r.tmp.join(format!("c07-{}.rs", r.case_no));
            let marker = if with_check {
                let _ = std::fs::write(&file, stdin_text);
                cmd.arg(&file);
                format!("c07-{}.rs", r.case_no)
            } else {
                "<stdin>".to_string()
            };
            cmd.arg("--config").arg(cfg.join(",")).current_dir(&r.tmp).env("RUSTC_ICE", "0").stdin(Stdio::piped()).stdout(Stdio::piped()).stderr(Stdio::piped());
            if let Ok(mut child) = cmd.spawn() {
                if let Some(mut si) = child.stdin.take() {
                    let _ = si.write_all(stdin_text.as_bytes());
                }
                if let Ok(res) = child.wait_with_output() {
                    let _ = std::fs::remove_file(&file);
                    let err = String::from_utf8_lossy(&res.stderr);
                    if res.status.code() != Some(1) {
                        return Outcome::fail("trailing-blank-exit-status", format!("a trailing blank is left behind but the binary{} exits with {:?}\n{err}", if with_check { " (--check, path input)" } else { "" }, res.status.code())).nontrivial(true);
                    }
                    for (l, k) in &reported {
                        // (the line is looked up in the plain run only: the --check run is judged on its exit status)
                        if *k == Kind::Trailing && !with_check && !err.contains(&format!("{marker}:{l}:")) {
                            return Outcome::fail("trailing-blank-not-printed", format!("line {l} is not named on stderr\n{err}")).nontrivial(true);
                        }
                    }
                    o.labels.push("binary-exit-status-checked".into());
                }
            }
        }
        o.nontrivial = any_violating;
        o
    }
}
