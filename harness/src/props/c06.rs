//! C06 Check mode is read-only and exact; all emit modes agree on the text.

use std::collections::BTreeMap;
use std::path::Path;
use std::time::{Duration, SystemTime};

use serde_json::{json, Value};

use crate::choices::Choices;
use crate::engine::{GenCtx, Outcome, Params, Property, RunCtx, Tier};
use crate::fmt::format_text;
use crate::gen::tree::{gen_tree, snapshot, Role, Tree, TreeSpace};
use crate::props::c13::run_rustfmt;

pub struct C06;

const NEWLINE_BODIES: &[&str] = &[
    "fn  main ( ) {\n    let   x=1 ;\n}\n",
    "// header\nuse b::c;\nuse a::d;\n\nstruct  S{a:u8}\n",
    "fn f() {\n    let s = \"multi\n  line\";\n    g( s ) ;\n}\n",
    "/* block\n   comment */\nmod  m { fn  g ( ) { } }\n",
];

/// One real file, newline_style from the command line or a configuration file: every mode must
/// agree on the expected bytes (formatted text with the terminators the style asks for).
fn run_newline(case: &Value, r: &RunCtx) -> Outcome {
    let body = case["body"].as_str().unwrap_or("");
    let style = case["style"].as_str().unwrap_or("Auto");
    let crlf = case["crlf"].as_bool().unwrap_or(false);
    let via_file = case["via_file"].as_bool().unwrap_or(false);
    let w = format_text(body, &vec![]);
    if !w.clean() {
        return Outcome::skip("module-does-not-format");
    }
    // known class (same defect as KF-C08-1): under Auto the terminators of a CRLF file are
    // detected on the source map's normalised text, so the modes disagree about such a file
    let judge_known = case["judge_known"].as_bool().unwrap_or(false);
    if style == "Auto" && crlf && !judge_known {
        let mut o = Outcome::pass();
        o.excluded.push("known-class:auto-crlf-file".into());
        return o;
    }
    let lf_text = if case["formatted"].as_bool().unwrap_or(false) { w.text.clone() } else { body.to_string() };
    let on_disk = if crlf { lf_text.replace('\n', "\r\n") } else { lf_text.clone() };
    let want_crlf = match style {
        "Windows" => true,
        "Unix" | "Native" => false,
        _ => crlf,
    };
    let want = if want_crlf { w.text.replace('\n', "\r\n") } else { w.text.clone() };
    let base = r.tmp.join(format!("c06n-{}", r.case_no));
    let _ = std::fs::remove_dir_all(&base);
    let fresh = |name: &str| -> std::path::PathBuf {
        let d = base.join(name);
        let _ = std::fs::create_dir_all(&d);
        let _ = std::fs::write(d.join("lib.rs"), &on_disk);
        if via_file {
            let _ = std::fs::write(d.join("rustfmt.toml"), format!("newline_style = \"{style}\"\n"));
        }
        set_past_mtimes(&d);
        d
    };
    let args = |extra: &[&str]| -> Vec<String> {
        let mut v: Vec<String> = extra.iter().map(|s| s.to_string()).collect();
        if !via_file {
            v.push("--config".into());
            v.push(format!("newline_style={style}"));
        }
        v.push("lib.rs".into());
        v
    };
    let differs = on_disk != want;
    let mut o = Outcome::pass();
    o.labels.push(format!("newline:{style}:{}:{}", if crlf { "crlf-file" } else { "lf-file" }, if differs { "differs" } else { "same" }));
    o.nontrivial = crlf != want_crlf || differs;
    let fail = |class: &str, msg: String| -> Outcome {
        let _ = std::fs::remove_dir_all(&base);
        let class = if style == "Auto" && crlf { format!("auto-crlf-file/{class}") } else { class.to_string() };
        Outcome::fail(format!("newline:{class}"), format!("{msg}\nnewline_style={style} (via {}), file has {} terminators, formatted code: {}\n--- on disk ---\n{on_disk:?}\n--- expected ---\n{want:?}", if via_file { "rustfmt.toml" } else { "--config" }, if crlf { "CRLF" } else { "LF" }, lf_text == w.text)).nontrivial(true)
    };
    macro_rules! run {
        ($dir:expr, $args:expr) => {
            match run_rustfmt(r, $dir, $args, None) {
                Some(x) => x,
                None => {
                    let _ = std::fs::remove_dir_all(&base);
                    return Outcome::skip("cannot-run-rustfmt");
                }
            }
        };
    }
    // --check: read-only (also when a backup is asked for), exit status tells exactly whether
    // the bytes differ
    let backup = case["backup"].as_bool().unwrap_or(false);
    let d = fresh("check");
    let (code, out, err) = run!(&d, &args(if backup { &["--check", "--backup"] } else { &["--check"] }));
    if std::fs::read(d.join("lib.rs")).ok().as_deref() != Some(on_disk.as_bytes()) {
        return fail("check-wrote", "--check changed the file".into());
    }
    if d.join("lib.bk").exists() {
        return fail("check-wrote-backup", "--check left a backup file".into());
    }
    if differs && code != Some(1) {
        return fail("check-missed-difference", format!("--check exits with {code:?} although the file differs from the bytes rustfmt would write\nstdout: {out}\nstderr: {err}"));
    }
    if !differs && (code != Some(0) || !out.is_empty()) {
        return fail("check-false-difference", format!("--check exits with {code:?} although the file already holds the bytes rustfmt would write\nstdout: {out}\nstderr: {err}"));
    }
    // -l lists the file iff it differs
    let d = fresh("list");
    let (_c, out, _e) = run!(&d, &args(&["--check", "-l"]));
    if out.contains("lib.rs") != differs {
        return fail("list-disagrees", format!("-l prints {out:?}, the file {} differ", if differs { "does" } else { "does not" }));
    }
    // --emit stdout prints the expected bytes
    let d = fresh("stdout");
    let (_c, out, _e) = run!(&d, &args(if backup { &["--emit", "stdout", "--quiet", "--backup"] } else { &["--emit", "stdout", "--quiet"] }));
    if std::fs::read(d.join("lib.rs")).ok().as_deref() != Some(on_disk.as_bytes()) || d.join("lib.bk").exists() {
        return fail("stdout-wrote", "--emit stdout changed the file or left a backup".into());
    }
    let printed = out.splitn(2, ":\n\n").nth(1).unwrap_or(&out).to_string();
    if printed != want {
        return fail("stdout-disagrees", format!("--emit stdout prints {printed:?}"));
    }
    // files mode writes exactly the expected bytes (and only then touches the file)
    let d = fresh("files");
    let (code, _o, err) = run!(&d, &args(if backup { &["--backup"] } else { &[] }));
    let after = std::fs::read(d.join("lib.rs")).unwrap_or_default();
    if code != Some(0) {
        return fail("files-status", format!("files mode exits with {code:?}: {err}"));
    }
    if after != want.as_bytes() {
        return fail("files-wrong-bytes", format!("files mode left {:?}", String::from_utf8_lossy(&after)));
    }
    let bk = d.join("lib.bk");
    if backup && differs && std::fs::read(&bk).ok().as_deref() != Some(on_disk.as_bytes()) {
        return fail("backup-missing", "--backup did not keep the original bytes in lib.bk".into());
    }
    if (!backup || !differs) && bk.exists() {
        return fail("backup-unexpected", "a .bk file was written although no backup was due".into());
    }
    if !differs {
        let m = std::fs::metadata(d.join("lib.rs")).and_then(|m| m.modified()).ok();
        if m != Some(past()) {
            return fail("files-touched-unchanged", "the file was rewritten although it already held the expected bytes".into());
        }
    }
    let _ = std::fs::remove_dir_all(&base);
    o
}

/// A real file that starts with a byte-order mark (the parser works on a copy without it):
/// `--check` must exit with 1 exactly when plain `rustfmt` rewrites the file, `-l` must list it in
/// exactly that case in both modes, and a rewritten file holds the complete formatted text.
fn run_bom(case: &Value, r: &RunCtx) -> Outcome {
    let body = case["body"].as_str().unwrap_or("");
    let w = format_text(body, &vec![]);
    if !w.clean() {
        return Outcome::skip("module-does-not-format");
    }
    let formatted = case["formatted"].as_bool().unwrap_or(false);
    let lf_text = if formatted { w.text.clone() } else { body.to_string() };
    let on_disk = format!("\u{feff}{lf_text}");
    let style = case["style"].as_str().unwrap_or("Default");
    let base = r.tmp.join(format!("c06b-{}", r.case_no));
    let _ = std::fs::remove_dir_all(&base);
    let fresh = |name: &str| -> std::path::PathBuf {
        let d = base.join(name);
        let _ = std::fs::create_dir_all(&d);
        let _ = std::fs::write(d.join("lib.rs"), &on_disk);
        set_past_mtimes(&d);
        d
    };
    let args = |extra: &[&str]| -> Vec<String> {
        let mut v: Vec<String> = extra.iter().map(|s| s.to_string()).collect();
        if style != "Default" {
            v.push("--config".into());
            v.push(format!("newline_style={style}"));
        }
        v.push("lib.rs".into());
        v
    };
    let mut o = Outcome::pass();
    o.labels.push(format!("bom:{style}:{}", if formatted { "formatted" } else { "unformatted" }));
    o.nontrivial = true;
    let fail = |class: &str, msg: String| -> Outcome {
        let _ = std::fs::remove_dir_all(&base);
        Outcome::fail(format!("bom:{class}"), format!("{msg}\nnewline_style={style}\n--- on disk ---\n{on_disk:?}")).nontrivial(true)
    };
    macro_rules! run {
        ($dir:expr, $args:expr) => {
            match run_rustfmt(r, $dir, $args, None) {
                Some(x) => x,
                None => {
                    let _ = std::fs::remove_dir_all(&base);
                    return Outcome::skip("cannot-run-rustfmt");
                }
            }
        };
    }
    let d = fresh("check");
    let (check_code, _out, err) = run!(&d, &args(&["--check"]));
    if std::fs::read(d.join("lib.rs")).ok().as_deref() != Some(on_disk.as_bytes()) {
        return fail("check-wrote", "--check changed the file".into());
    }
    if !matches!(check_code, Some(0) | Some(1)) {
        return fail("check-status", format!("--check exits with {check_code:?}: {err}"));
    }
    let d = fresh("list-check");
    let (_c, list_check, _e) = run!(&d, &args(&["--check", "-l"]));
    let d = fresh("files");
    let (code, list_files, err) = run!(&d, &args(&["-l"]));
    if code != Some(0) {
        return fail("files-status", format!("files mode exits with {code:?}: {err}"));
    }
    let after = std::fs::read(d.join("lib.rs")).unwrap_or_default();
    let touched = std::fs::metadata(d.join("lib.rs")).and_then(|m| m.modified()).ok() != Some(past());
    let rewritten = after != on_disk.as_bytes() || touched;
    if (check_code == Some(1)) != rewritten {
        return fail("check-disagrees-with-files-mode", format!("--check exits with {check_code:?}, plain rustfmt {} the file", if rewritten { "rewrites" } else { "does not touch" }));
    }
    if list_check.contains("lib.rs") != rewritten || list_files.contains("lib.rs") != rewritten {
        return fail("list-disagrees", format!("-l prints {list_files:?}, --check -l prints {list_check:?}, the file is {}rewritten", if rewritten { "" } else { "not " }));
    }
    if !formatted && !rewritten {
        return fail("unformatted-file-kept", "an unformatted file was not rewritten".into());
    }
    let expected = format_text(&on_disk, &vec![]);
    if rewritten && expected.clean() && after != expected.text.as_bytes() && after != format!("\u{feff}{}", expected.text).as_bytes() {
        return fail("files-wrong-bytes", format!("files mode left {:?}", String::from_utf8_lossy(&after)));
    }
    let _ = std::fs::remove_dir_all(&base);
    o
}

fn past() -> SystemTime {
    SystemTime::UNIX_EPOCH + Duration::from_secs(1_000_000_000)
}

fn set_past_mtimes(dir: &Path) {
    fn walk(d: &Path) {
        if let Ok(rd) = std::fs::read_dir(d) {
            for e in rd.flatten() {
                let p = e.path();
                if p.is_dir() {
                    walk(&p);
                } else if let Ok(f) = std::fs::OpenOptions::new().write(true).open(&p) {
                    let _ = f.set_modified(past());
                }
            }
        }
    }
    walk(dir);
}

fn mtimes(dir: &Path) -> BTreeMap<String, SystemTime> {
    fn walk(base: &Path, d: &Path, out: &mut BTreeMap<String, SystemTime>) {
        if let Ok(rd) = std::fs::read_dir(d) {
            for e in rd.flatten() {
                let p = e.path();
                if p.is_dir() {
                    walk(base, &p, out);
                } else if let Ok(m) = std::fs::metadata(&p).and_then(|m| m.modified()) {
                    out.insert(p.strip_prefix(base).unwrap().to_string_lossy().into_owned(), m);
                }
            }
        }
    }
    let mut m = BTreeMap::new();
    walk(dir, dir, &mut m);
    m
}

/// Splits `--emit stdout` output into per-file sections (`<path>:\n\n<text>`).
fn stdout_sections(out: &str, paths: &[String]) -> BTreeMap<String, String> {
    let mut res = BTreeMap::new();
    let mut cur: Option<String> = None;
    let mut buf = String::new();
    let mut skip_blank = false;
    for line in out.split_inclusive('\n') {
        let l = line.trim_end_matches('\n');
        if let Some(p) = paths.iter().find(|p| l == format!("{p}:")) {
            if let Some(c) = cur.take() {
                res.insert(c, std::mem::take(&mut buf));
            }
            cur = Some(p.clone());
            skip_blank = true;
            continue;
        }
        if skip_blank {
            skip_blank = false;
            if l.is_empty() {
                continue;
            }
        }
        buf.push_str(line);
    }
    if let Some(c) = cur.take() {
        res.insert(c, buf);
    }
    res
}

fn apply_json(orig: &str, blocks: &Value) -> Option<String> {
    // lines in the convention of the reports: str::lines() + a final "" when terminated
    let mut ol: Vec<&str> = orig.lines().collect();
    if orig.ends_with('\n') {
        ol.push("");
    }
    let mut out: Vec<String> = vec![];
    let mut pos = 0usize;
    for b in blocks.as_array()? {
        let ob = b["original_begin_line"].as_u64()? as usize;
        let o_txt = b["original"].as_str()?;
        let e_txt = b["expected"].as_str()?;
        let n = o_txt.matches('\n').count();
        if ob == 0 || ob - 1 < pos || ob - 1 + n > ol.len() {
            return None;
        }
        out.extend(ol[pos..ob - 1].iter().map(|s| s.to_string()));
        out.extend(e_txt.split_terminator('\n').map(|s| s.to_string()));
        pos = ob - 1 + n;
    }
    out.extend(ol[pos..].iter().map(|s| s.to_string()));
    Some(out.join("\n"))
}

impl Property for C06 {
    fn id(&self) -> &'static str {
        "C06"
    }
    fn needs_corpus(&self) -> bool {
        false
    }
    fn params(&self, tier: Tier) -> Params {
        Params {
            cases: match tier {
                Tier::Quick => 640,
                Tier::Thorough => 6_000,
            },
            max_bytes: 256,
            timeout: Duration::from_secs(120),
        }
    }
    fn rule(&self) -> &'static str {
        "generated crate trees in which a random subset of the reachable files is already formatted (a quarter of those except for a missing final terminator or one surplus blank line at the end); the real binary runs on fresh copies (mtimes preset to a fixed past instant) in every mode: --check, --check -l, --emit stdout, --emit json, --emit checkstyle, --emit files, files with -l / --backup / --quiet, standard input for the root, and the histories check;format;check and format;format; oracle: the non-writing modes change no byte and no mtime; files mode rewrites exactly the files whose formatted text differs and leaves the mtime of the others alone; with no error --check exits 1 iff files mode rewrites a file; the stdout sections, the files-mode bytes, the stdin text of the root and the text obtained by applying the json blocks to the original are identical; the checkstyle messages are lines of the formatted text at the stated numbers; -l lists exactly the rewritten files; --backup leaves a .bk with the original for exactly those; after format, check passes and a second format touches nothing; one case in four is instead a single real file with LF or CRLF terminators, formatted or not, under newline_style Auto / Unix / Windows / Native given by --config or a rustfmt.toml: --check (also with --backup), -l, --emit stdout (also with --backup) and files mode (with and without --backup) must all agree on the expected bytes (formatted text with the terminators the style asks for) and the read-only modes write nothing; one case in twelve is a single real file starting with a byte-order mark, formatted or not: --check must exit 1 exactly when plain rustfmt rewrites (or touches) it, -l and --check -l must list it in exactly that case, and a rewritten file holds the complete formatted text; non-trivial = at least one unformatted and one formatted reachable file; distinct by case content"
    }
    fn generate(&self, c: &mut Choices<'_>, _g: &GenCtx) -> Value {
        if c.chance(1, 12) {
            // a real file with a byte-order mark
            return json!({"kind": "bom", "body": *c.pick(NEWLINE_BODIES), "formatted": c.chance(2, 3), "style": *c.pick(&["Default", "Default", "Auto", "Unix"])});
        }
        if c.chance(1, 4) {
            // explicit / automatic newline_style against the terminators of a real file
            let body = *c.pick(NEWLINE_BODIES);
            return json!({
                "kind": "newline",
                "body": body,
                "formatted": c.chance(2, 3),
                "crlf": c.flip(),
                "style": *c.pick(&["Auto", "Unix", "Windows", "Native"]),
                "via_file": c.flip(),
                "backup": c.chance(1, 4),
            });
        }
        let t = gen_tree(c, &TreeSpace { max_depth: 2, exclusions: false, decoys: true, exotic: false, ..TreeSpace::default() });
        // which reachable files are already formatted
        let n = t.files.len();
        let formatted: Vec<bool> = (0..n).map(|_| c.chance(2, 5)).collect();
        let newline = c.chance(1, 6);
        // an already formatted file that differs only at its end: 1 = no final terminator,
        // 2 = one surplus blank line
        let eof: Vec<usize> = (0..n).map(|_| c.weighted(&[6, 1, 1])).collect();
        json!({"tree": t, "formatted": formatted, "crlf_root": newline, "eof": eof})
    }
    fn run(&self, case: &Value, r: &RunCtx) -> Outcome {
        if case["kind"].as_str() == Some("newline") {
            return run_newline(case, r);
        }
        if case["kind"].as_str() == Some("bom") {
            return run_bom(case, r);
        }
        let Ok(mut tree) = serde_json::from_value::<Tree>(case["tree"].clone()) else {
            return Outcome::skip("bad-case");
        };
        let pre: Vec<bool> = case["formatted"].as_array().map(|a| a.iter().map(|b| b.as_bool().unwrap_or(false)).collect()).unwrap_or_default();
        // expected formatted text of every reachable file
        let mut want: BTreeMap<String, String> = BTreeMap::new();
        for (i, f) in tree.files.iter_mut().enumerate() {
            if matches!(f.role, Role::Root | Role::Module) {
                let w = format_text(&f.content, &vec![]);
                if !w.clean() {
                    return Outcome::skip("module-does-not-format");
                }
                if pre.get(i).copied().unwrap_or(false) {
                    f.content = w.text.clone();
                    match case["eof"][i].as_u64() {
                        Some(1) => {
                            f.content.pop();
                        }
                        Some(2) => f.content.push('\n'),
                        _ => {}
                    }
                }
                want.insert(f.path.clone(), w.text);
            }
        }
        let reachable: Vec<String> = want.keys().cloned().collect();
        let should_change: Vec<String> = tree.files.iter().filter(|f| want.get(&f.path).map(|w| *w != f.content).unwrap_or(false)).map(|f| f.path.clone()).collect();
        let base = r.tmp.join(format!("c06-{}", r.case_no));
        let _ = std::fs::remove_dir_all(&base);
        let mut o = Outcome::pass();
        o.labels.push(format!("reachable:{}:to-rewrite:{}", reachable.len().min(8), should_change.len().min(8)));
        o.nontrivial = !should_change.is_empty() && should_change.len() < reachable.len();
        let root_abs = |d: &Path| d.join(&tree.root).to_string_lossy().into_owned();
        let fresh = |name: &str| -> std::path::PathBuf {
            let d = base.join(name);
            tree.write_to(&d);
            set_past_mtimes(&d);
            d
        };
        let fail = |class: &str, msg: String| -> Outcome {
            let _ = std::fs::remove_dir_all(&base);
            Outcome::fail(class.to_string(), format!("{msg}\nroot {} reachable {:?} to-rewrite {:?}", tree.root, reachable, should_change)).nontrivial(true)
        };
        macro_rules! run {
            ($dir:expr, $args:expr, $stdin:expr) => {
                match run_rustfmt(r, $dir, $args, $stdin) {
                    Some(x) => x,
                    None => {
                        let _ = std::fs::remove_dir_all(&base);
                        return Outcome::skip("cannot-run-rustfmt");
                    }
                }
            };
        }
        // ---- non-writing modes ---------------------------------------------------------------
        let original = {
            let d = fresh("orig");
            let s = snapshot(&d);
            s
        };
        for (name, args) in [
            ("check", vec!["--check".to_string()]),
            ("check-l", vec!["--check".to_string(), "-l".to_string()]),
            ("stdout", vec!["--emit".to_string(), "stdout".to_string()]),
            ("json", vec!["--emit".to_string(), "json".to_string()]),
            ("checkstyle", vec!["--emit".to_string(), "checkstyle".to_string()]),
            ("check-quiet", vec!["--check".to_string(), "--quiet".to_string()]),
        ] {
            let d = fresh(name);
            let before_m = mtimes(&d);
            let mut a = args.clone();
            a.push(root_abs(&d));
            let (code, out, err) = run!(&d, &a, None);
            if snapshot(&d) != original {
                return fail(&format!("non-writing-mode-modified-files:{name}"), format!("mode {name} changed file contents"));
            }
            if mtimes(&d) != before_m {
                return fail(&format!("non-writing-mode-touched-files:{name}"), format!("mode {name} changed a modification time"));
            }
            let abs_paths: Vec<String> = reachable.iter().map(|p| d.join(p).to_string_lossy().into_owned()).collect();
            match name {
                "check" | "check-quiet" => {
                    let want_code = if should_change.is_empty() { 0 } else { 1 };
                    if code != Some(want_code) {
                        return fail("check-exit-status", format!("--check exited with {code:?}, files mode would rewrite {} file(s); stderr {err}", should_change.len()));
                    }
                }
                "check-l" => {
                    let mut listed: Vec<String> = out.lines().map(|l| l.trim().to_owned()).filter(|l| !l.is_empty()).collect();
                    listed.sort();
                    let mut w: Vec<String> = should_change.iter().map(|p| d.join(p).to_string_lossy().into_owned()).collect();
                    w.sort();
                    if listed != w {
                        return fail("check-l-listing", format!("--check -l listed {listed:?}, expected {w:?}"));
                    }
                }
                "stdout" => {
                    let secs = stdout_sections(&out, &abs_paths);
                    for (p, abs) in reachable.iter().zip(abs_paths.iter()) {
                        match secs.get(abs) {
                            Some(t) if t == want.get(p).unwrap() => {}
                            other => return fail("stdout-text", format!("--emit stdout section of {p} is {other:?}, expected {:?}", want.get(p))),
                        }
                    }
                }
                "json" => {
                    let v: Value = match serde_json::from_str(&out) {
                        Ok(v) => v,
                        Err(e) => return fail("json-malformed", format!("{e}: {out:?}")),
                    };
                    let mut named: Vec<String> = vec![];
                    for f in v.as_array().cloned().unwrap_or_default() {
                        let name = f["name"].as_str().unwrap_or("").to_owned();
                        let Some(rel) = reachable.iter().zip(abs_paths.iter()).find(|(_, a)| **a == name).map(|(p, _)| p.clone()) else {
                            return fail("json-unknown-file", format!("json names {name}"));
                        };
                        let orig = String::from_utf8_lossy(original.get(&rel).unwrap()).into_owned();
                        let rebuilt = apply_json(&orig, &f["mismatches"]);
                        if rebuilt.as_deref() != Some(want.get(&rel).unwrap().as_str()) {
                            return fail("json-text", format!("applying the json blocks of {rel} gives {rebuilt:?}, expected {:?}", want.get(&rel)));
                        }
                        named.push(rel);
                    }
                    named.sort();
                    let mut w = should_change.clone();
                    w.sort();
                    if named != w {
                        return fail("json-files", format!("json reports {named:?}, expected {w:?}"));
                    }
                }
                "checkstyle" => {
                    // every message is a line of the formatted text of its file at that number
                    let mut cur: Option<String> = None;
                    for part in out.split('<').skip(1) {
                        if let Some(rest) = part.strip_prefix("file name=\"") {
                            let name = rest.split('"').next().unwrap_or("");
                            cur = reachable.iter().zip(abs_paths.iter()).find(|(_, a)| a.as_str() == name).map(|(p, _)| p.clone());
                            if cur.is_none() {
                                return fail("checkstyle-unknown-file", format!("checkstyle names {name}"));
                            }
                        } else if let Some(rest) = part.strip_prefix("error line=\"") {
                            let line: usize = rest.split('"').next().unwrap_or("0").parse().unwrap_or(0);
                            let msg = rest.split("message=\"Should be `").nth(1).unwrap_or("");
                            let msg = msg.rsplit_once("`\"").map(|x| x.0).unwrap_or(msg);
                            let msg = msg.replace("&lt;", "<").replace("&gt;", ">").replace("&quot;", "\"").replace("&apos;", "'").replace("&amp;", "&");
                            let Some(p) = &cur else { return fail("checkstyle-shape", "error outside file".into()) };
                            let text = want.get(p).unwrap();
                            let mut lines: Vec<&str> = text.lines().collect();
                            if text.ends_with('\n') {
                                lines.push("");
                            }
                            if lines.get(line.wrapping_sub(1)).copied() != Some(msg.as_str()) {
                                return fail("checkstyle-text", format!("checkstyle line {line} of {p} says {msg:?}, the formatted text has {:?}", lines.get(line.wrapping_sub(1))));
                            }
                        }
                    }
                }
                _ => {}
            }
        }
        // ---- standard input for the root -----------------------------------------------------
        {
            let d = fresh("stdin");
            let root_text = String::from_utf8_lossy(original.get(&tree.root).unwrap()).into_owned();
            let (_code, out, _err) = run!(&d, &[], Some(&root_text));
            if out != *want.get(&tree.root).unwrap() {
                return fail("stdin-text", format!("standard input gives {out:?}, expected {:?}", want.get(&tree.root)));
            }
            if snapshot(&d) != original {
                return fail("stdin-modified-files", "formatting standard input changed a file".into());
            }
        }
        // ---- files mode and its variants -----------------------------------------------------
        for (name, args) in [("files", vec![]), ("files-l", vec!["-l".to_string()]), ("files-backup", vec!["--backup".to_string()]), ("files-quiet", vec!["--quiet".to_string()]), ("emit-files", vec!["--emit".to_string(), "files".to_string()])] {
            let d = fresh(name);
            let mut a = args.clone();
            a.push(root_abs(&d));
            let (code, out, err) = run!(&d, &a, None);
            if code != Some(0) {
                return fail("files-exit-status", format!("mode {name} exited with {code:?}: {err}"));
            }
            let snap = snapshot(&d);
            let mt = mtimes(&d);
            for f in &tree.files {
                let now = snap.get(&f.path).map(|b| String::from_utf8_lossy(b).into_owned());
                let expect = want.get(&f.path).cloned().unwrap_or_else(|| f.content.clone());
                if now.as_deref() != Some(expect.as_str()) {
                    return fail(&format!("files-content:{name}"), format!("after mode {name}, {} holds {now:?}, expected {expect:?}", f.path));
                }
                let touched = mt.get(&f.path).map(|m| *m != past()).unwrap_or(false);
                let should = should_change.contains(&f.path);
                if touched != should {
                    return fail(&format!("files-mtime:{name}"), format!("after mode {name}, {} was {} although its formatted text {} what was on disk", f.path, if touched { "touched" } else { "not touched" }, if should { "differs from" } else { "equals" }));
                }
            }
            let extra: Vec<&String> = snap.keys().filter(|k| !original.contains_key(*k)).collect();
            if name == "files-backup" {
                let mut w: Vec<String> = should_change.iter().map(|p| format!("{}.bk", p.trim_end_matches(".rs"))).collect();
                w.sort();
                let mut got: Vec<String> = extra.iter().map(|s| s.to_string()).collect();
                got.sort();
                if got != w {
                    return fail("backup-files", format!("--backup created {got:?}, expected {w:?}"));
                }
                for p in &should_change {
                    let bk = format!("{}.bk", p.trim_end_matches(".rs"));
                    if snap.get(&bk) != original.get(p) {
                        return fail("backup-content", format!("{bk} does not hold the original of {p}"));
                    }
                }
            } else if !extra.is_empty() {
                return fail(&format!("files-created:{name}"), format!("mode {name} created {extra:?}"));
            }
            if name == "files-l" {
                let mut listed: Vec<String> = out.lines().map(|l| l.trim().to_owned()).filter(|l| !l.is_empty()).collect();
                listed.sort();
                let mut w: Vec<String> = should_change.iter().map(|p| d.join(p).to_string_lossy().into_owned()).collect();
                w.sort();
                if listed != w {
                    return fail("files-l-listing", format!("-l listed {listed:?}, expected {w:?}"));
                }
            }
            if name == "files" {
                // histories: check after format passes; a second format touches nothing
                set_past_mtimes(&d);
                let (c2, _o2, e2) = run!(&d, &["--check".to_string(), root_abs(&d)], None);
                if c2 != Some(0) {
                    return fail("check-after-format", format!("--check after a format run exited with {c2:?}: {e2}"));
                }
                let (_c3, _o3, _e3) = run!(&d, &[root_abs(&d)], None);
                if mtimes(&d).values().any(|m| *m != past()) {
                    return fail("second-format-touched-files", "a second format run touched a file".into());
                }
            }
        }
        let _ = std::fs::remove_dir_all(&base);
        o
    }
}
