//! C14 Configuration is resolved with the documented precedence.

use std::collections::BTreeMap;
use std::path::Path;
use std::process::{Command, Stdio};
use std::time::Duration;

use rustfmt_nightly::{Config, Edition, StyleEdition, Version};
use serde_json::{json, Value};

use crate::choices::Choices;
use crate::engine::{GenCtx, Outcome, Params, Property, RunCtx, Tier};
use crate::fmt::format_text;
use crate::gen::conf::{BOOLS, ENUMS};

pub struct C14;

type KV = Vec<(String, String)>;

/// keys a generated configuration source may set, with a value generator
fn gen_value(c: &mut Choices<'_>, key: &str) -> String {
    match key {
        "max_width" => (40 + c.below(121)).to_string(),
        "tab_spaces" => (1 + c.below(8)).to_string(),
        "hard_tabs" | "reorder_imports" | "merge_imports" | "hide_parse_errors" | "show_parse_errors" => (*c.pick(&["true", "false"])).to_string(),
        "brace_style" => (*c.pick(&["AlwaysNextLine", "PreferSameLine", "SameLineWhere"])).to_string(),
        "newline_style" => (*c.pick(&["Unix", "Windows", "Native", "Auto"])).to_string(),
        "imports_granularity" => (*c.pick(&["Crate", "Module", "Item", "One", "Preserve"])).to_string(),
        "fn_params_layout" | "fn_args_layout" => (*c.pick(&["Compressed", "Tall", "Vertical"])).to_string(),
        "fn_call_width" | "chain_width" | "attr_fn_like_width" | "struct_lit_width" | "struct_variant_width" | "array_width" | "single_line_if_else_max_width" | "single_line_let_else_max_width" => c.below(220).to_string(),
        "use_small_heuristics" => (*c.pick(&["Default", "Max", "Default", "Off"])).to_string(),
        "edition" => (*c.pick(&["2015", "2018", "2021", "2024"])).to_string(),
        "style_edition" => (*c.pick(&["2015", "2018", "2021", "2024"])).to_string(),
        "version" => (*c.pick(&["One", "Two"])).to_string(),
        _ => "true".to_string(),
    }
}

const KEYS: &[&str] = &[
    "max_width", "tab_spaces", "hard_tabs", "brace_style", "reorder_imports", "newline_style", "imports_granularity", "fn_params_layout", "fn_call_width", "chain_width", "use_small_heuristics", "edition", "style_edition", "version",
    "merge_imports", "fn_args_layout", "hide_parse_errors", "show_parse_errors",
    "attr_fn_like_width", "struct_lit_width", "struct_variant_width", "array_width", "single_line_if_else_max_width", "single_line_let_else_max_width",
];

const WIDTH_KEYS: &[&str] = &["fn_call_width", "attr_fn_like_width", "struct_lit_width", "struct_variant_width", "array_width", "chain_width", "single_line_if_else_max_width", "single_line_let_else_max_width"];

fn gen_kv(c: &mut Choices<'_>, max: usize) -> KV {
    let n = c.below(max + 1);
    let mut v: KV = vec![];
    for _ in 0..n {
        let k = *c.pick(KEYS);
        if v.iter().any(|(a, _)| a == k) {
            continue;
        }
        v.push((k.to_string(), gen_value(c, k)));
    }
    v
}

fn toml_of(kv: &KV) -> String {
    let mut s = String::new();
    for (k, v) in kv {
        let bare = v == "true" || v == "false" || v.chars().all(|c| c.is_ascii_digit());
        // edition / style_edition are strings in TOML
        if bare && k != "edition" && k != "style_edition" {
            s.push_str(&format!("{k} = {v}\n"));
        } else {
            s.push_str(&format!("{k} = \"{v}\"\n"));
        }
    }
    s
}

fn se_of(s: &str) -> Option<StyleEdition> {
    Some(match s {
        "2015" => StyleEdition::Edition2015,
        "2018" => StyleEdition::Edition2018,
        "2021" => StyleEdition::Edition2021,
        "2024" => StyleEdition::Edition2024,
        _ => return None,
    })
}

#[allow(dead_code)]
fn ed_of(s: &str) -> Option<Edition> {
    Some(match s {
        "2015" => Edition::Edition2015,
        "2018" => Edition::Edition2018,
        "2021" => Edition::Edition2021,
        "2024" => Edition::Edition2024,
        _ => return None,
    })
}

/// defaults of every option for an effective style edition, as printed values
fn defaults(se: &str) -> BTreeMap<String, String> {
    let cfg = Config::default_for_possible_style_edition(se_of(se), None::<Edition>, None::<Version>);
    let text = cfg.all_options().to_toml().unwrap_or_default();
    parse_printed(&text)
}

fn parse_printed(text: &str) -> BTreeMap<String, String> {
    let mut m = BTreeMap::new();
    if let Ok(toml::Value::Table(t)) = text.parse::<toml::Value>() {
        for (k, v) in t {
            let s = match v {
                toml::Value::String(s) => s,
                other => other.to_string(),
            };
            m.insert(k, s);
        }
    }
    m
}

fn get<'a>(kv: &'a KV, k: &str) -> Option<&'a str> {
    kv.iter().rev().find(|(a, _)| a == k).map(|(_, v)| v.as_str())
}

/// The reference model: effective value of every probed option.
fn model(file: &KV, cli: &KV, flag_edition: Option<&str>, flag_style: Option<&str>) -> BTreeMap<String, String> {
    let pick = |k: &str| -> Option<String> { get(cli, k).or(get(file, k)).map(|s| s.to_owned()) };
    // effective style edition: style_edition, else legacy version, else edition, else 2015
    let edition = flag_edition.map(|s| s.to_owned()).or(pick("edition"));
    let style = flag_style
        .map(|s| s.to_owned())
        .or(pick("style_edition"))
        .or(pick("version").map(|v| if v == "Two" { "2024".to_string() } else { "2015".to_string() }))
        .or(edition.clone())
        .unwrap_or_else(|| "2015".to_string());
    let explicit_style = flag_style.map(|s| s.to_owned()).or(pick("style_edition"));
    let mut m = defaults(&style);
    // the `style_edition` option itself: the given value when given, else whatever default the
    // effective style edition carries (2015, 2018 and 2021 share one set of defaults)
    if let Some(s) = explicit_style {
        m.insert("style_edition".into(), s);
    }
    if let Some(v) = pick("version") {
        m.insert("version".into(), v);
    }
    if let Some(e) = edition {
        m.insert("edition".into(), e);
    }
    for k in ["max_width", "tab_spaces", "hard_tabs", "brace_style", "reorder_imports", "newline_style", "use_small_heuristics"] {
        if let Some(v) = pick(k) {
            m.insert(k.into(), v);
        }
    }
    // deprecated aliases, each only when the successor was not set explicitly
    match pick("imports_granularity") {
        Some(v) => {
            m.insert("imports_granularity".into(), v);
        }
        None => {
            if let Some(v) = pick("merge_imports") {
                m.insert("imports_granularity".into(), if v == "true" { "Crate".into() } else { "Preserve".into() });
            }
        }
    }
    match pick("fn_params_layout") {
        Some(v) => {
            m.insert("fn_params_layout".into(), v);
        }
        None => {
            if let Some(v) = pick("fn_args_layout") {
                m.insert("fn_params_layout".into(), v);
            }
        }
    }
    match pick("show_parse_errors") {
        Some(v) => {
            m.insert("show_parse_errors".into(), v);
        }
        None => {
            if let Some(v) = pick("hide_parse_errors") {
                m.insert("show_parse_errors".into(), if v == "true" { "false".into() } else { "true".into() });
            }
        }
    }
    // width limits: explicit values are clamped to max_width; derived ones are only bounded
    // (see `run`), except under `Max` where they equal max_width
    let max_width: usize = m.get("max_width").and_then(|v| v.parse().ok()).unwrap_or(100);
    let heur = m.get("use_small_heuristics").cloned().unwrap_or_else(|| "Default".into());
    for k in WIDTH_KEYS.iter().copied() {
        match pick(k) {
            Some(v) => {
                m.insert(k.into(), v.parse::<usize>().unwrap_or(0).min(max_width).to_string());
            }
            None if heur == "Max" => {
                m.insert(k.into(), max_width.to_string());
            }
            None => {
                m.remove(k);
            }
        }
    }
    m
}

const PROBES: &[&str] = &["max_width", "tab_spaces", "hard_tabs", "brace_style", "reorder_imports", "newline_style", "use_small_heuristics", "imports_granularity", "fn_params_layout", "show_parse_errors", "fn_call_width", "chain_width", "attr_fn_like_width", "struct_lit_width", "struct_variant_width", "array_width", "single_line_if_else_max_width", "single_line_let_else_max_width", "style_edition", "edition", "version"];

fn run_bin(r: &RunCtx, cwd: &Path, home: &Path, xdg: &Path, args: &[String], stdin: Option<&str>) -> Option<(Option<i32>, String, String)> {
    use std::io::Write;
    let mut cmd = Command::new(r.bin_dir.join("rustfmt"));
    cmd.args(args)
        .current_dir(cwd)
        .env("RUSTC_ICE", "0")
        .env("HOME", home)
        .env("XDG_CONFIG_HOME", xdg)
        .stdin(if stdin.is_some() { Stdio::piped() } else { Stdio::null() })
        .stdout(Stdio::piped())
        .stderr(Stdio::piped());
    let mut child = cmd.spawn().ok()?;
    if let Some(t) = stdin {
        if let Some(mut si) = child.stdin.take() {
            let _ = si.write_all(t.as_bytes());
        }
    }
    let out = child.wait_with_output().ok()?;
    Some((out.status.code(), String::from_utf8_lossy(&out.stdout).into_owned(), String::from_utf8_lossy(&out.stderr).into_owned()))
}

const PROBE_SRC: &str = "use b::z;\nuse a::{y, x};\nfn long_function_name(first_argument: u32, second_argument: u32, third_argument: u32) -> u32 {\n    let v = some_object.method_one(first_argument).method_two(second_argument).method_three(third_argument);\n    match v { 1 => { foo() } _ => bar(first_argument, second_argument, third_argument, 4, 5, 6, 7, 8) }\n}\nstruct S { a: u8, b: u8 }\nimpl S { fn f(&self) -> u8 where Self: Sized { self.a } }\n";

impl Property for C14 {
    fn id(&self) -> &'static str {
        "C14"
    }
    fn needs_corpus(&self) -> bool {
        false
    }
    fn params(&self, tier: Tier) -> Params {
        Params {
            cases: match tier {
                Tier::Quick => 4_000,
                Tier::Thorough => 60_000,
            },
            max_bytes: 256,
            timeout: Duration::from_secs(60),
        }
    }
    fn rule(&self) -> &'static str {
        "generated directory layouts (three nested levels, each with none / rustfmt.toml / .rustfmt.toml / both, plus $HOME and $XDG_CONFIG_HOME/rustfmt) whose configuration files set random subsets of 24 options incl. the deprecated aliases and all eight width limits, x CLI part (--config-path file or directory, --config k=v,.., --edition, --style-edition) x 1..3 input files from different levels in every order; the real binary's `--print-config current FILE` is compared with a reference model of the documented resolution (nearest file, dotted name first, home, user-config; --config-path wholesale; CLI over file; defaults of the effective style edition; aliases only when the successor is unset; explicit widths clamped to max_width, unset ones from use_small_heuristics) and every printed width is checked against max_width; further cases: the same (option, value) through a file, through --config and through the API gives identical formatted text; --print-config default/current written back as a configuration file prints the same text again (per-file configurations inside one multi-file invocation are C15's subject); non-trivial = at least two sources disagree on a probed option and the winner is not the default; distinct by case content"
    }
    fn assumptions(&self) -> Vec<&'static str> {
        vec!["the default values per style edition are read from the library (Config::default_for_possible_style_edition); C09 guards them", "the same option is never supplied through a dedicated flag and --config in one invocation"]
    }
    fn generate(&self, c: &mut Choices<'_>, _g: &GenCtx) -> Value {
        match c.weighted(&[6, 3, 1]) {
            0 => {
                let mut levels = vec![];
                for _ in 0..3 {
                    let plain = if c.chance(2, 5) { Some(gen_kv(c, 4)) } else { None };
                    let dotted = if c.chance(1, 4) { Some(gen_kv(c, 4)) } else { None };
                    levels.push(json!({"rustfmt.toml": plain, ".rustfmt.toml": dotted}));
                }
                let home = if c.chance(1, 3) { Some(gen_kv(c, 3)) } else { None };
                let xdg = if c.chance(1, 3) { Some(gen_kv(c, 3)) } else { None };
                let config_path = match c.weighted(&[6, 1, 1]) {
                    0 => Value::Null,
                    1 => json!({"kind": "file", "kv": gen_kv(c, 4)}),
                    _ => json!({"kind": "dir", "kv": gen_kv(c, 4)}),
                };
                let mut cli = gen_kv(c, 3);
                let flag_edition = if c.chance(1, 4) { Some(gen_value(c, "edition")) } else { None };
                let flag_style = if c.chance(1, 4) { Some(gen_value(c, "style_edition")) } else { None };
                // never both a dedicated flag and --config for the same option
                if flag_edition.is_some() {
                    cli.retain(|(k, _)| k != "edition");
                }
                if flag_style.is_some() {
                    cli.retain(|(k, _)| k != "style_edition");
                }
                let n_inputs = 1 + c.below(3);
                let inputs: Vec<usize> = (0..n_inputs).map(|_| c.below(3)).collect();
                json!({"kind": "precedence", "levels": levels, "home": home, "xdg": xdg, "config_path": config_path, "cli": cli, "flag_edition": flag_edition, "flag_style": flag_style, "inputs": inputs})
            }
            1 => {
                // one (option, value) through three channels
                let total = BOOLS.len() + ENUMS.len();
                let i = c.below(total);
                let (k, v) = if i < BOOLS.len() {
                    (BOOLS[i].0.to_string(), (!BOOLS[i].1).to_string())
                } else {
                    let (k, vs) = ENUMS[i - BOOLS.len()];
                    (k.to_string(), vs[1 + c.below(vs.len() - 1)].to_string())
                };
                let width = 40 + c.below(100);
                json!({"kind": "equivalence", "key": k, "value": v, "max_width": width})
            }
            _ => json!({"kind": "roundtrip", "which": if c.flip() { "default" } else { "current" }, "kv": gen_kv(c, 5)}),
        }
    }
    fn run(&self, case: &Value, r: &RunCtx) -> Outcome {
        let base = r.tmp.join(format!("c14-{}", r.case_no));
        let _ = std::fs::remove_dir_all(&base);
        let home = base.join("home");
        let xdg = base.join("xdg");
        let _ = std::fs::create_dir_all(&home);
        let _ = std::fs::create_dir_all(xdg.join("rustfmt"));
        let kv_of = |v: &Value| -> Option<KV> { v.as_array().map(|a| a.iter().filter_map(|p| Some((p.get(0)?.as_str()?.to_owned(), p.get(1)?.as_str()?.to_owned()))).collect()) };
        let judge_known = case["judge_known"].as_bool().unwrap_or(false);
        let mut o = Outcome::pass();
        let cleanup = || {
            let _ = std::fs::remove_dir_all(&base);
        };
        match case["kind"].as_str().unwrap_or("") {
            "precedence" => {
                let dirs = [base.join("top"), base.join("top/mid"), base.join("top/mid/leaf")];
                let mut level_files: Vec<(Option<KV>, Option<KV>)> = vec![];
                for (i, d) in dirs.iter().enumerate() {
                    let _ = std::fs::create_dir_all(d);
                    let plain = kv_of(&case["levels"][i]["rustfmt.toml"]);
                    let dotted = kv_of(&case["levels"][i][".rustfmt.toml"]);
                    if let Some(kv) = &plain {
                        let _ = std::fs::write(d.join("rustfmt.toml"), toml_of(kv));
                    }
                    if let Some(kv) = &dotted {
                        let _ = std::fs::write(d.join(".rustfmt.toml"), toml_of(kv));
                    }
                    level_files.push((plain, dotted));
                }
                let home_kv = kv_of(&case["home"]);
                if let Some(kv) = &home_kv {
                    let _ = std::fs::write(home.join("rustfmt.toml"), toml_of(kv));
                }
                let xdg_kv = kv_of(&case["xdg"]);
                if let Some(kv) = &xdg_kv {
                    let _ = std::fs::write(xdg.join("rustfmt/rustfmt.toml"), toml_of(kv));
                }
                let cli = kv_of(&case["cli"]).unwrap_or_default();
                let flag_edition = case["flag_edition"].as_str();
                let flag_style = case["flag_style"].as_str();
                let mut args: Vec<String> = vec![];
                let mut cp_kv: Option<KV> = None;
                if let Some(kind) = case["config_path"]["kind"].as_str() {
                    let kv = kv_of(&case["config_path"]["kv"]).unwrap_or_default();
                    let d = base.join("elsewhere");
                    let _ = std::fs::create_dir_all(&d);
                    let _ = std::fs::write(d.join("rustfmt.toml"), toml_of(&kv));
                    args.push("--config-path".into());
                    args.push(if kind == "file" { d.join("rustfmt.toml") } else { d.clone() }.to_string_lossy().into_owned());
                    cp_kv = Some(kv);
                }
                if !cli.is_empty() {
                    args.push("--config".into());
                    args.push(cli.iter().map(|(k, v)| format!("{k}={v}")).collect::<Vec<_>>().join(","));
                }
                if let Some(e) = flag_edition {
                    args.push("--edition".into());
                    args.push(e.into());
                }
                if let Some(s) = flag_style {
                    args.push("--style-edition".into());
                    args.push(s.into());
                }
                let inputs: Vec<usize> = case["inputs"].as_array().map(|a| a.iter().map(|x| x.as_u64().unwrap_or(0) as usize % 3).collect()).unwrap_or_else(|| vec![2]);
                let mut disagreement = false;
                for (n, lvl) in inputs.iter().enumerate() {
                    let file = dirs[*lvl].join(format!("input{n}.rs"));
                    let _ = std::fs::write(&file, "fn main() {}\n");
                    // the model's base file
                    let base_kv: KV = if let Some(kv) = &cp_kv {
                        kv.clone()
                    } else {
                        let mut found: Option<KV> = None;
                        for l in (0..=*lvl).rev() {
                            let (plain, dotted) = &level_files[l];
                            if let Some(kv) = dotted {
                                found = Some(kv.clone());
                                break;
                            }
                            if let Some(kv) = plain {
                                found = Some(kv.clone());
                                break;
                            }
                        }
                        found.or(home_kv.clone()).or(xdg_kv.clone()).unwrap_or_default()
                    };
                    let want = model(&base_kv, &cli, flag_edition, flag_style);
                    let mut a = args.clone();
                    a.push("--print-config".into());
                    a.push("current".into());
                    a.push(file.to_string_lossy().into_owned());
                    let Some((code, out, err)) = run_bin(r, &base, &home, &xdg, &a, None) else {
                        cleanup();
                        return Outcome::skip("cannot-run-rustfmt");
                    };
                    if code != Some(0) {
                        // known class: with use_small_heuristics = "Off" the derived limits are
                        // usize::MAX, which --print-config cannot serialise
                        if want.get("use_small_heuristics").map(|s| s.as_str()) == Some("Off") {
                            cleanup();
                            if !judge_known {
                                o.excluded.push("known-class:off-heuristics-print-config-fails".into());
                                return o;
                            }
                            return Outcome::fail("print-config-fails/off-heuristics", format!("--print-config current fails under use_small_heuristics = Off: {err}\nargs {a:?}")).nontrivial(true);
                        }
                        cleanup();
                        return Outcome::fail("print-config-rejected", format!("--print-config current exits with {code:?}: {err}\nargs {a:?}\nbase file {base_kv:?} cli {cli:?}")).nontrivial(true);
                    }
                    let got = parse_printed(&out);
                    for k in PROBES {
                        let (w, g) = (want.get(*k), got.get(*k));
                        if w.is_some() && w != g {
                            // a width limit that exceeds the max_width of its own file is outside
                            // the documented domain; rustfmt clamps it when the file is loaded
                            if WIDTH_KEYS.contains(k) && get(&cli, k).is_none() {
                                if let Some(fv) = get(&base_kv, k).and_then(|v| v.parse::<usize>().ok()) {
                                    let file_max = get(&base_kv, "max_width").and_then(|v| v.parse::<usize>().ok()).unwrap_or(100);
                                    let final_max: usize = want.get("max_width").and_then(|v| v.parse().ok()).unwrap_or(100);
                                    if fv > file_max && g.and_then(|v| v.parse::<usize>().ok()) == Some(fv.min(file_max).min(final_max)) {
                                        o.labels.push("width-above-own-max_width-clamped-at-load".into());
                                        continue;
                                    }
                                }
                            }
                            cleanup();
                            return Outcome::fail(
                                format!("precedence:{k}"),
                                format!("input at level {lvl}: `{k}` is {g:?}, the model expects {w:?}\nargs {a:?}\nlevels {}\nhome {home_kv:?} xdg {xdg_kv:?}\nbase file {base_kv:?} cli {cli:?} flags {flag_edition:?}/{flag_style:?}\nstderr {}", case["levels"], err.chars().take(300).collect::<String>()),
                            )
                            .nontrivial(true);
                        }
                    }
                    // every width limit stays within max_width
                    let mw: usize = got.get("max_width").and_then(|v| v.parse().ok()).unwrap_or(100);
                    for k in ["fn_call_width", "attr_fn_like_width", "struct_lit_width", "struct_variant_width", "array_width", "chain_width", "single_line_if_else_max_width", "single_line_let_else_max_width"] {
                        if let Some(v) = got.get(k).and_then(|v| v.parse::<usize>().ok()) {
                            if v > mw {
                                // known class: the default heuristics are not scaled for a
                                // max_width below 100, so the derived limits exceed a small max_width
                                let heur = got.get("use_small_heuristics").map(|s| s.as_str()).unwrap_or("Default");
                                let explicit = get(&cli, k).or(get(&base_kv, k)).is_some();
                                if heur == "Default" && !explicit && mw < 100 {
                                    if !judge_known {
                                        if !o.excluded.iter().any(|x| x.contains("unscaled")) {
                                            o.excluded.push("known-class:default-heuristics-unscaled-below-100".into());
                                        }
                                        continue;
                                    }
                                    cleanup();
                                    return Outcome::fail("width-exceeds-max_width/default-heuristics-unscaled", format!("{k} = {v} > max_width = {mw} (use_small_heuristics = Default)\nargs {a:?}")).nontrivial(true);
                                }
                                cleanup();
                                return Outcome::fail(format!("width-exceeds-max_width:{k}"), format!("{k} = {v} > max_width = {mw}\nargs {a:?}")).nontrivial(true);
                            }
                        }
                    }
                    let dflt = defaults("2015");
                    if PROBES.iter().any(|k| want.get(*k) != dflt.get(*k)) && (!cli.is_empty() as usize + !base_kv.is_empty() as usize + flag_style.is_some() as usize) >= 2 {
                        disagreement = true;
                    }
                }
                o.nontrivial = disagreement;
                o.labels.push(format!("precedence:inputs:{}", inputs.len()));
                if cp_kv.is_some() {
                    o.labels.push("config-path".into());
                }
                if home_kv.is_some() || xdg_kv.is_some() {
                    o.labels.push("home-or-xdg".into());
                }
            }
            "equivalence" => {
                let k = case["key"].as_str().unwrap_or("hard_tabs");
                let v = case["value"].as_str().unwrap_or("true");
                let w = case["max_width"].as_u64().unwrap_or(100).to_string();
                let d = base.join("proj");
                let _ = std::fs::create_dir_all(&d);
                let kv: KV = vec![("max_width".into(), w.clone()), (k.to_string(), v.to_string())];
                // (a) through a file
                let _ = std::fs::write(d.join("rustfmt.toml"), toml_of(&kv));
                let _ = std::fs::write(d.join("probe.rs"), PROBE_SRC);
                let Some((ca, out_a, _)) = run_bin(r, &d, &home, &xdg, &["--emit".into(), "stdout".into(), "--quiet".into(), d.join("probe.rs").to_string_lossy().into_owned()], None) else {
                    cleanup();
                    return Outcome::skip("cannot-run-rustfmt");
                };
                // (b) through --config
                let d2 = base.join("bare");
                let _ = std::fs::create_dir_all(&d2);
                let _ = std::fs::write(d2.join("probe.rs"), PROBE_SRC);
                let Some((cb, out_b, _)) = run_bin(r, &d2, &home, &xdg, &["--emit".into(), "stdout".into(), "--quiet".into(), "--config".into(), format!("max_width={w},{k}={v}"), d2.join("probe.rs").to_string_lossy().into_owned()], None) else {
                    cleanup();
                    return Outcome::skip("cannot-run-rustfmt");
                };
                // (c) through the API
                let api = format_text(PROBE_SRC, &kv);
                cleanup();
                if ca != cb {
                    return Outcome::fail(format!("equivalence:status:{k}"), format!("{k}={v}: exit status {ca:?} via file, {cb:?} via --config")).nontrivial(true);
                }
                if ca != Some(0) {
                    return Outcome::skip("probe-does-not-format-under-option");
                }
                let strip = |s: &str, p: &Path| -> String { s.replace(&format!("{}:\n\n", p.join("probe.rs").display()), "") };
                let (ta, tb) = (strip(&out_a, &d), strip(&out_b, &d2));
                if ta != tb {
                    return Outcome::fail(format!("equivalence:file-vs-cli:{k}"), format!("{k}={v} (max_width {w}) formats differently through a file and through --config\n--- file ---\n{ta}\n--- --config ---\n{tb}")).nontrivial(true);
                }
                if api.emitted() && api.text != ta {
                    return Outcome::fail(format!("equivalence:api-vs-file:{k}"), format!("{k}={v} (max_width {w}) formats differently through the API\n--- file ---\n{ta}\n--- api ---\n{}", api.text)).nontrivial(true);
                }
                o.nontrivial = ta != PROBE_SRC;
                o.labels.push("equivalence".into());
            }
            "roundtrip" => {
                let which = case["which"].as_str().unwrap_or("default");
                let kv = kv_of(&case["kv"]).unwrap_or_default();
                let d = base.join("proj");
                let _ = std::fs::create_dir_all(&d);
                let _ = std::fs::write(d.join("x.rs"), "fn main() {}\n");
                if which == "current" {
                    let _ = std::fs::write(d.join("rustfmt.toml"), toml_of(&kv));
                }
                let args: Vec<String> = if which == "default" { vec!["--print-config".into(), "default".into()] } else { vec!["--print-config".into(), "current".into(), d.join("x.rs").to_string_lossy().into_owned()] };
                let Some((c1, out1, _e1)) = run_bin(r, &d, &home, &xdg, &args, None) else {
                    cleanup();
                    return Outcome::skip("cannot-run-rustfmt");
                };
                if c1 != Some(0) {
                    cleanup();
                    return Outcome::skip("print-config-rejected");
                }
                let d2 = base.join("again");
                let _ = std::fs::create_dir_all(&d2);
                let _ = std::fs::write(d2.join("x.rs"), "fn main() {}\n");
                let _ = std::fs::write(d2.join("rustfmt.toml"), &out1);
                let Some((c2, out2, e2)) = run_bin(r, &d2, &home, &xdg, &["--print-config".into(), "current".into(), d2.join("x.rs").to_string_lossy().into_owned()], None) else {
                    cleanup();
                    return Outcome::skip("cannot-run-rustfmt");
                };
                cleanup();
                if c2 != Some(0) {
                    return Outcome::fail("roundtrip:rejected", format!("the text printed by --print-config {which} is not accepted as a configuration file: {e2}\n{out1}")).nontrivial(true);
                }
                if parse_printed(&out1) != parse_printed(&out2) {
                    let (a, b) = (parse_printed(&out1), parse_printed(&out2));
                    // known class (see the precedence case): the unscaled default heuristics print
                    // limits above a small max_width, which are clamped when read back
                    let mw: usize = a.get("max_width").and_then(|v| v.parse().ok()).unwrap_or(100);
                    let unscaled = a.get("use_small_heuristics").map(|s| s.as_str()) == Some("Default")
                        && mw < 100
                        && a.iter().filter(|(k, v)| b.get(*k) != Some(*v)).all(|(k, v)| k.ends_with("_width") && v.parse::<usize>().map(|x| x > mw).unwrap_or(false) && b.get(k).and_then(|x| x.parse::<usize>().ok()) == Some(mw));
                    if unscaled {
                        if !judge_known {
                            o.excluded.push("known-class:default-heuristics-unscaled-below-100".into());
                            return o;
                        }
                        return Outcome::fail("roundtrip:differs/default-heuristics-unscaled", format!("re-parsing the printed configuration clamps the limits printed above max_width = {mw}")).nontrivial(true);
                    }
                    let diff: Vec<_> = a.iter().filter(|(k, v)| b.get(*k) != Some(*v)).collect();
                    return Outcome::fail("roundtrip:differs", format!("re-parsing the printed configuration changes {diff:?}")).nontrivial(true);
                }
                o.nontrivial = which == "current" && !kv.is_empty();
                o.labels.push(format!("roundtrip:{which}"));
            }
            _ => {
                cleanup();
                return Outcome::skip("unknown-kind");
            }
        }
        cleanup();
        o
    }
}
