//! C15 Output is a function of source and configuration only.

use std::collections::BTreeMap;
use std::path::{Path, PathBuf};
use std::time::Duration;

use serde::{Deserialize, Serialize};
use serde_json::{json, Value};

use crate::choices::Choices;
use crate::engine::{GenCtx, Outcome, Params, Property, RunCtx, Tier};
use crate::props::c13::run_rustfmt;

pub struct C15;

#[derive(Debug, Clone, Serialize, Deserialize)]
struct F {
    /// path relative to the case directory
    path: String,
    content: String,
}

const SOURCES: &[&str] = &[
    "fn  a ( ) { let x = some_function_name ( argument_number_one , argument_number_two , argument_number_three ) ; }\n",
    "fn b() {\n    let x = 1;\n}\n",
    "pub struct S{a:u8,b:u8}\nimpl S{fn f(&self)->u8{self.a}}\n",
    "use b::z; use a::y;\nfn c(){if true{1}else{2};}\n",
    "fn broken( {\n",
    "fn also_broken() { let s = \"abc; }\n",
    "fn d(){let v=vec![1,2,3,4,5,6,7,8,9,10,11,12,13,14,15,16,17,18,19,20,21,22,23,24,25,26,27,28,29,30];}\n",
    "// only a comment\n",
    "mod inner{pub fn e(){}}\n",
];
const CONFIGS: &[&str] = &["max_width = 40\n", "tab_spaces = 2\n", "hard_tabs = true\n", "max_width = 60\nfn_call_width = 20\n", "reorder_imports = false\n", "newline_style = \"Unix\"\n"];

const API_LOCALS: &[&str] = &["max_width=40", "tab_spaces=2", "hard_tabs=true", "max_width=60,fn_call_width=20", "reorder_imports=false", "style_edition=2024", "brace_style=AlwaysNextLine"];

fn kv(s: Option<&str>) -> crate::fmt::Opts {
    s.map(|s| s.split(',').filter_map(|p| p.split_once('=')).map(|(k, v)| (k.to_string(), v.to_string())).collect()).unwrap_or_default()
}

/// Several inputs in one `Session` (every order): each input's text and report equal those of a
/// session of its own; the summary flags after the sequence are the OR of the single flags; a
/// local configuration swapped in for one input does not leak into the next.
fn run_api_session(case: &Value) -> Outcome {
    use crate::fmt::{format_sequence, Opts, SeqOut};
    let mut base: Opts = kv(case["base"].as_str());
    if case["diagnostics"].as_bool() == Some(true) {
        base.push(("error_on_line_overflow".into(), "true".into()));
        base.push(("error_on_unformatted".into(), "true".into()));
    }
    let steps: Vec<(String, Option<Opts>)> = case["steps"].as_array().map(|a| a.iter().map(|s| (s["src"].as_str().unwrap_or("").to_string(), s["local"].as_str().map(|l| kv(Some(l))))).collect()).unwrap_or_default();
    if steps.len() < 2 {
        return Outcome::skip("too-few-steps");
    }
    // references: every input in a session of its own
    let single: Vec<SeqOut> = steps.iter().map(|st| format_sequence(std::slice::from_ref(st), &base).into_iter().next().unwrap_or_default()).collect();
    if single.iter().any(|s| s.panicked) {
        return Outcome::skip("panic-is-C16's-subject");
    }
    let mut o = Outcome::pass();
    o.labels.push(format!("api-session:steps:{}", steps.len()));
    let distinct_cfg = steps.iter().filter(|s| s.1.is_some()).count();
    let any_err = single.iter().any(|s| s.flags_after.1);
    o.nontrivial = distinct_cfg >= 1 || any_err;
    if distinct_cfg > 0 {
        o.labels.push("api-session:local-config".into());
    }
    if any_err {
        o.labels.push("api-session:with-parse-failure".into());
    }
    let or = |a: (bool, bool, bool, bool, bool, bool), b: (bool, bool, bool, bool, bool, bool)| (a.0 || b.0, a.1 || b.1, a.2 || b.2, a.3 || b.3, a.4 || b.4, a.5 || b.5);
    for perm in permutations(steps.len(), 24) {
        let seq: Vec<(String, Option<Opts>)> = perm.iter().map(|&i| steps[i].clone()).collect();
        let got = format_sequence(&seq, &base);
        if got.len() != seq.len() || got.iter().any(|g| g.panicked) {
            return Outcome::skip("panic-is-C16's-subject");
        }
        let mut acc = (false, false, false, false, false, false);
        for (k, &i) in perm.iter().enumerate() {
            let (g, s) = (&got[k], &single[i]);
            let describe = || format!("order {perm:?}, position {k} (input {i}): {:?} under local {:?}, base {base:?}\n--- alone ---\n{}\n--- in the session ---\n{}", steps[i].0, steps[i].1, s.text, g.text);
            if g.text != s.text {
                return Outcome::fail("api-session:text-depends-on-history", describe()).nontrivial(true);
            }
            if g.errors != s.errors || g.err != s.err {
                return Outcome::fail("api-session:report-depends-on-history", format!("{}\nalone: {:?} {:?}\nin the session: {:?} {:?}", describe(), s.errors, s.err, g.errors, g.err)).nontrivial(true);
            }
            acc = or(acc, s.flags_after);
            if g.flags_after != acc {
                return Outcome::fail("api-session:flags-not-the-or-of-single-flags", format!("{}\nflags after this step {:?}, OR of the single-session flags {:?}", describe(), g.flags_after, acc)).nontrivial(true);
            }
        }
    }
    o
}

fn write_all(dir: &Path, files: &[F]) {
    let _ = std::fs::remove_dir_all(dir);
    for f in files {
        let p = dir.join(&f.path);
        let _ = std::fs::create_dir_all(p.parent().unwrap());
        let _ = std::fs::write(p, &f.content);
    }
}

fn sections(out: &str, paths: &[String]) -> BTreeMap<String, String> {
    let mut res = BTreeMap::new();
    let mut cur: Option<String> = None;
    let mut buf = String::new();
    let mut skip_blank = false;
    for line in out.split_inclusive('\n') {
        let l = line.trim_end_matches('\n');
        if let Some(p) = paths.iter().find(|p| l == format!("{p}:")) {
            if let Some(c) = cur.take() {
                res.insert(c, std::mem::take(&mut buf));
            }
            cur = Some(p.clone());
            skip_blank = true;
            continue;
        }
        if skip_blank {
            skip_blank = false;
            if l.is_empty() {
                continue;
            }
        }
        buf.push_str(line);
    }
    if let Some(c) = cur.take() {
        res.insert(c, buf);
    }
    res
}

fn permutations(n: usize, limit: usize) -> Vec<Vec<usize>> {
    fn heap(k: usize, a: &mut Vec<usize>, out: &mut Vec<Vec<usize>>, limit: usize) {
        if out.len() >= limit {
            return;
        }
        if k <= 1 {
            out.push(a.clone());
            return;
        }
        for i in 0..k {
            heap(k - 1, a, out, limit);
            if k % 2 == 0 {
                a.swap(i, k - 1);
            } else {
                a.swap(0, k - 1);
            }
        }
    }
    let mut out = vec![];
    heap(n, &mut (0..n).collect(), &mut out, limit);
    out
}

impl Property for C15 {
    fn id(&self) -> &'static str {
        "C15"
    }
    fn needs_corpus(&self) -> bool {
        false
    }
    fn params(&self, tier: Tier) -> Params {
        Params {
            cases: match tier {
                Tier::Quick => 600,
                Tier::Thorough => 18_000,
            },
            max_bytes: 128,
            timeout: Duration::from_secs(180),
        }
    }
    fn rule(&self) -> &'static str {
        "(A, one third of the cases) generated sets of 1..5 source files (unformatted, formatted, failing to parse, comment-only, a root with three out-of-line modules, a root whose out-of-line modules are declared inside cfg_if! after 0..3 other items, two roots that mount the same module file) in a directory layout with 0..3 local rustfmt.toml files (sibling directories and a directory nested below another one that has its own configuration); the real binary runs (a) on every file alone (stdout and files mode) as the reference, (b) on every order of the files on one command line (all permutations up to 24), (c) twice with the same command, (b') with --emit json for all files at once against the single-file json reports, (d) with the source on standard input from the file's directory, (e) from another working directory with absolute paths and with a perturbed environment (TERM, LANG, RUST_BACKTRACE, NO_COLOR, extra variables); oracle: per-file text and per-file files-mode bytes equal the single-file results, the exit status is the maximum of the single-file statuses, repeated runs are byte-identical (including the emission order of the files of one module tree), the multi-file json report is the union of the single-file reports; (B, two thirds) 2..5 inputs formatted one after the other in ONE API Session in every order, some under Session::override_config with a local configuration: text and report entries of every input equal those of a session of its own and the session's summary flags after each step are the OR of the single-session flags; non-trivial = the set mixes a failing and an unformatted file, or has two different local configurations; distinct by case content"
    }
    fn generate(&self, c: &mut Choices<'_>, _g: &GenCtx) -> Value {
        if c.chance(2, 3) {
            // one API session, several inputs, some under a local configuration
            let n = 2 + c.below(4);
            let steps: Vec<Value> = (0..n)
                .map(|_| {
                    let local = if c.chance(1, 3) { Some(*c.pick(API_LOCALS)) } else { None };
                    json!({"src": *c.pick(SOURCES), "local": local})
                })
                .collect();
            let base = *c.pick(API_LOCALS);
            return json!({"kind": "api-session", "steps": steps, "base": if c.flip() { Some(base) } else { None }, "diagnostics": c.flip()});
        }
        let n = 1 + c.below(5);
        let mut files: Vec<F> = vec![];
        let mut configs: Vec<F> = vec![];
        // directory layout: proj/ (maybe config), proj/sub/ (maybe config), proj/plain/ (no config), other/ (maybe config)
        let dirs = ["proj", "proj/sub", "proj/plain", "other", "other/deep/er"];
        let mut used_cfg = 0;
        for d in ["proj", "proj/sub", "other"] {
            if c.chance(1, 2) {
                configs.push(F { path: format!("{d}/rustfmt.toml"), content: (*c.pick(CONFIGS)).to_string() });
                used_cfg += 1;
            }
        }
        // two roots that mount the same module file (its reports belong to both inputs)
        let shared_dir = if n >= 2 && c.chance(1, 4) { Some(dirs[c.below(dirs.len())]) } else { None };
        if let Some(d) = shared_dir {
            configs.push(F { path: format!("{d}/shared_c.rs"), content: "pub fn  shared_fn ( ) { let y=2 ; }\n".to_string() });
        }
        for i in 0..n {
            let d = dirs[c.below(dirs.len())];
            if let (Some(sd), true) = (shared_dir, i < 2) {
                files.push(F { path: format!("{sd}/f{i}.rs"), content: format!("#[path = \"shared_c.rs\"]\nmod shared_c;\nfn  uses_shared_{i} ( ) {{ }}\n") });
                continue;
            }
            if c.chance(1, 5) {
                // a root whose out-of-line modules are declared inside cfg_if!, after a varying
                // number of other identifiers
                let mut content = String::new();
                for j in 0..c.below(4) {
                    content.push_str(&format!("fn  pre_{i}_{j} ( arg_{i}_{j} : u8 ) {{ }}\n"));
                }
                content.push_str("cfg_if::cfg_if! {\n    if #[cfg(unix)] {\n        mod ka;\n    } else {\n        mod kb;\n    }\n}\nfn  root_with_cfg_if ( ) { }\n");
                files.push(F { path: format!("{d}/f{i}.rs"), content });
                for k in ["ka", "kb"] {
                    configs.push(F { path: format!("{d}/f{i}/{k}.rs"), content: format!("pub fn  {k}_{i} ( ) {{ let x=1 ; }}\n") });
                }
                continue;
            }
            if c.chance(1, 4) {
                // a root with three out-of-line modules (emission order within one input)
                files.push(F { path: format!("{d}/f{i}.rs"), content: "mod kc;\nmod ka;\nmod kb;\nfn  root_of_tree ( ) { }\n".to_string() });
                for k in ["ka", "kb", "kc"] {
                    configs.push(F { path: format!("{d}/f{i}/{k}.rs"), content: format!("pub fn  {k}_{i} ( ) {{ let x=1 ; }}\n") });
                }
            } else {
                files.push(F { path: format!("{d}/f{i}.rs"), content: (*c.pick(SOURCES)).to_string() });
            }
        }
        let _ = used_cfg;
        json!({"files": files, "configs": configs})
    }
    fn run(&self, case: &Value, r: &RunCtx) -> Outcome {
        if case["kind"].as_str() == Some("api-session") {
            return run_api_session(case);
        }
        let (Ok(files), Ok(configs)) = (serde_json::from_value::<Vec<F>>(case["files"].clone()), serde_json::from_value::<Vec<F>>(case["configs"].clone())) else {
            return Outcome::skip("bad-case");
        };
        let base = r.tmp.join(format!("c15-{}", r.case_no));
        let _ = std::fs::remove_dir_all(&base);
        let all: Vec<F> = files.iter().chain(configs.iter()).cloned().collect();
        // every run happens in a directory of the same name so that absolute paths in the output agree
        let work = base.join("w");
        let abs = |f: &F| work.join(&f.path).to_string_lossy().into_owned();
        let paths: Vec<String> = files.iter().map(abs).collect();
        // every source file that can head a section of the stdout emitter (roots and their children)
        let headers: Vec<String> = files.iter().chain(configs.iter().filter(|f| f.path.ends_with(".rs"))).map(abs).collect();
        let mut o = Outcome::pass();
        o.labels.push(format!("files:{}:configs:{}", files.len(), configs.len()));
        let fail = |class: &str, msg: String| -> Outcome {
            let _ = std::fs::remove_dir_all(&base);
            Outcome::fail(class.to_string(), format!("{msg}\nfiles {:?}\nconfigs {:?}", files.iter().map(|f| (&f.path, &f.content)).collect::<Vec<_>>(), configs.iter().map(|f| (&f.path, &f.content)).collect::<Vec<_>>())).nontrivial(true)
        };
        macro_rules! run {
            ($cwd:expr, $args:expr, $stdin:expr) => {
                match run_rustfmt(r, $cwd, $args, $stdin) {
                    Some(x) => x,
                    None => {
                        let _ = std::fs::remove_dir_all(&base);
                        return Outcome::skip("cannot-run-rustfmt");
                    }
                }
            };
        }
        // ---- (a) single-file references ---------------------------------------------------------
        let mut single_text: Vec<String> = vec![];
        let mut single_secs: Vec<BTreeMap<String, String>> = vec![];
        let mut single_code: Vec<i32> = vec![];
        let mut single_files: Vec<Vec<u8>> = vec![];
        for (i, f) in files.iter().enumerate() {
            write_all(&work, &all);
            let (code, out, _err) = run!(&work, &["--emit".to_string(), "stdout".to_string(), paths[i].clone()], None);
            let sec = sections(&out, &headers);
            single_text.push(sec.get(&paths[i]).cloned().unwrap_or_default());
            single_secs.push(sec);
            single_code.push(code.unwrap_or(-1));
            write_all(&work, &all);
            let _ = run!(&work, &[paths[i].clone()], None);
            single_files.push(std::fs::read(work.join(&f.path)).unwrap_or_default());
        }
        if single_code.iter().any(|c| *c != 0 && *c != 1) {
            let _ = std::fs::remove_dir_all(&base);
            return Outcome::skip("single-run-abnormal-status");
        }
        let max_code = single_code.iter().copied().max().unwrap_or(0);
        let failing = single_code.iter().filter(|c| **c == 1).count();
        let unformatted = files.iter().zip(single_files.iter()).filter(|(f, b)| b.as_slice() != f.content.as_bytes()).count();
        let distinct_cfg: std::collections::BTreeSet<&String> = configs.iter().map(|c| &c.content).collect();
        o.nontrivial = (failing >= 1 && unformatted >= 1) || distinct_cfg.len() >= 2;
        // ---- (b) every order on one command line ------------------------------------------------
        let perms = permutations(files.len(), 24);
        let mut first_out: Option<(String, String)> = None;
        for p in &perms {
            write_all(&work, &all);
            let mut args = vec!["--emit".to_string(), "stdout".to_string()];
            args.extend(p.iter().map(|i| paths[*i].clone()));
            let (code, out, err) = run!(&work, &args, None);
            let sec = sections(&out, &headers);
            for i in 0..files.len() {
                // the root's section and those of its out-of-line modules
                for (hp, want) in &single_secs[i] {
                    let got = sec.get(hp).cloned().unwrap_or_default();
                    if &got != want {
                        return fail("multi-file-text-differs", format!("order {p:?}: text of {hp} (input {}) differs from the single-file run\n--- single ---\n{want}\n--- in this order ---\n{got}", files[i].path));
                    }
                }
            }
            if code != Some(max_code) {
                return fail("multi-file-exit-status", format!("order {p:?}: exit status {code:?}, single-file statuses {single_code:?}"));
            }
            if p == &perms[0] {
                first_out = Some((out.clone(), err.clone()));
                // (c) the same command again
                write_all(&work, &all);
                let (code2, out2, err2) = run!(&work, &args, None);
                if code2 != code || out2 != out || err2 != err {
                    return fail("repeated-run-differs", format!("the same command twice gave different results (exit {code:?} vs {code2:?})"));
                }
            }
            // files mode in this order
            write_all(&work, &all);
            let fargs: Vec<String> = p.iter().map(|i| paths[*i].clone()).collect();
            let (fcode, _o, _e) = run!(&work, &fargs, None);
            for i in 0..files.len() {
                let now = std::fs::read(work.join(&files[i].path)).unwrap_or_default();
                if now != single_files[i] {
                    return fail("multi-file-bytes-differ", format!("order {p:?} (files mode): {} differs from its single-file result", files[i].path));
                }
            }
            if fcode != Some(max_code) {
                return fail("multi-file-exit-status", format!("order {p:?} (files mode): exit status {fcode:?}, single-file statuses {single_code:?}"));
            }
        }
        // ---- (b') the json report of the multi-file run is the union of the single-file reports --
        {
            let strip = |v: &mut Value| {
                // file names are absolute and identical in all runs (same work directory)
                let _ = v;
            };
            let mut singles: Vec<Value> = vec![];
            let mut ok = true;
            for i in 0..files.len() {
                write_all(&work, &all);
                let (_c, out, _e) = run!(&work, &["--emit".to_string(), "json".to_string(), paths[i].clone()], None);
                match serde_json::from_str::<Value>(&out) {
                    Ok(Value::Array(a)) => singles.extend(a),
                    _ => ok = false,
                }
            }
            write_all(&work, &all);
            let mut args = vec!["--emit".to_string(), "json".to_string()];
            args.extend(paths.iter().cloned());
            let (_c, out, _e) = run!(&work, &args, None);
            if ok {
                match serde_json::from_str::<Value>(&out) {
                    Ok(Value::Array(mut a)) => {
                        for v in a.iter_mut() {
                            strip(v);
                        }
                        let key = |v: &Value| v.to_string();
                        let mut got: Vec<String> = a.iter().map(key).collect();
                        let mut want: Vec<String> = singles.iter().map(key).collect();
                        got.sort();
                        want.sort();
                        if got != want {
                            return fail("multi-file-json-differs", format!("the json report of the multi-file run is not the union of the single-file reports\n--- multi ---\n{out}\n--- singles ---\n{}", Value::Array(singles).to_string()));
                        }
                        o.labels.push("json-union-checked".into());
                    }
                    _ => return fail("multi-file-json-malformed", format!("the json report of the multi-file run does not parse although every single-file report does\n{out}")),
                }
            }
        }
        // ---- (d) standard input from the file's directory ---------------------------------------
        for (i, f) in files.iter().enumerate() {
            if single_code[i] != 0 || f.content.starts_with("mod kc;") || f.content.contains("cfg_if!") || f.content.contains("mod shared_c;") {
                // (children of a root given on standard input are not visited)
                continue;
            }
            write_all(&work, &all);
            let dir: PathBuf = work.join(&f.path).parent().unwrap().to_path_buf();
            let (_code, out, _err) = run!(&dir, &[], Some(&f.content));
            if out != single_text[i] {
                return fail("stdin-differs-from-path", format!("{} on standard input (cwd = its directory) gives different text than as a path\n--- path ---\n{}\n--- stdin ---\n{}", f.path, single_text[i], out));
            }
        }
        // ---- (e) another working directory, perturbed environment --------------------------------
        {
            write_all(&work, &all);
            let other = base.join("elsewhere");
            let _ = std::fs::create_dir_all(&other);
            let mut args = vec!["--emit".to_string(), "stdout".to_string()];
            args.extend(paths.iter().cloned());
            let mut cmd = std::process::Command::new(r.bin_dir.join("rustfmt"));
            cmd.args(&args)
                .current_dir(&other)
                .env("RUSTC_ICE", "0")
                .env("HOME", &work)
                .env("XDG_CONFIG_HOME", work.join(".xdg-none"))
                .env("TERM", "xterm-256color")
                .env("LANG", "tr_TR.UTF-8")
                .env("LC_ALL", "C")
                .env("RUST_BACKTRACE", "1")
                .env("NO_COLOR", "1")
                .env("SOME_UNRELATED_VARIABLE", "x")
                .stdin(std::process::Stdio::null());
            if let Ok(outp) = cmd.output() {
                let out = String::from_utf8_lossy(&outp.stdout).into_owned();
                if let Some((first, _)) = &first_out {
                    // perms[0] is the identity order
                    if &out != first {
                        return fail("environment-changes-output", "another working directory / environment changed the emitted text".into());
                    }
                }
                if outp.status.code() != Some(max_code) {
                    return fail("environment-changes-status", format!("exit {:?} vs {max_code}", outp.status.code()));
                }
            }
        }
        let _ = std::fs::remove_dir_all(&base);
        o
    }
}
