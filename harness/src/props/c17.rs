//! C17 file_lines confines changes to the selected code.

use std::time::Duration;

use serde_json::{json, Value};

use crate::choices::Choices;
use crate::engine::{GenCtx, Outcome, Params, Property, RunCtx, Tier};
use crate::fmt::{format_text, Opts};
use crate::parse::{top_fn_bodies, top_items};

pub struct C17;

const STMTS: &[&str] = &[
    "let  a=1 ;",
    "call( 1,2 ) ;",
    "let v=vec! [ 1,2 ,3 ];",
    "if x{y ( ) ;}",
    "let s = Foo{a:1,b:2} ;",
    "x . iter ( ) . map ( |v|v+1 ) . collect :: < Vec<_> > ( ) ;",
    "return   ;",
    "let   long_name_number_one=some_function_name ( argument_one,argument_two ) ;",
    "match  x{1=>a ( ) ,_=>b ( ) ,}",
    "let t=( 1,2 ) ;",
];
const ITEMS: &[&str] = &["struct  S{a:u8,b:u8}", "enum E{A,B ( u8 ) }", "const  C:u8=1 ;", "type  T=Vec< u8 > ;", "use  a :: { c,b } ;", "static  X : u8=2 ;"];

/// line span (1-based, inclusive) of a byte range
fn lines_of(src: &str, lo: usize, hi: usize) -> (usize, usize) {
    let a = src[..lo].matches('\n').count() + 1;
    let b = src[..hi.max(lo + 1) - 1].matches('\n').count() + 1;
    (a, b.max(a))
}

fn intersects(ranges: &[(usize, usize)], span: (usize, usize)) -> bool {
    ranges.iter().any(|(lo, hi)| *lo <= span.1 && span.0 <= *hi)
}

fn ranges_json(ranges: &[(usize, usize)]) -> String {
    let v: Vec<Value> = ranges.iter().map(|(a, b)| json!({"file": "stdin", "range": [a, b]})).collect();
    Value::Array(v).to_string()
}

fn merge(ranges: &[(usize, usize)]) -> Vec<(usize, usize)> {
    let mut v: Vec<(usize, usize)> = ranges.to_vec();
    v.sort();
    let mut out: Vec<(usize, usize)> = vec![];
    for (a, b) in v {
        if let Some(last) = out.last_mut() {
            if a <= last.1 + 1 {
                last.1 = last.1.max(b);
                continue;
            }
        }
        out.push((a, b));
    }
    out
}

/// The source as `child.rs`, declared by `mod child;` in an unformatted root that is given to the
/// real binary by path with --file-lines naming the child's file, the root's file, or both: each
/// file must end up as the API gives for its own text under its own ranges (no range = nothing
/// selected = unchanged).
fn run_tree(case: &Value, r: &RunCtx) -> Outcome {
    let child_src = case["src"].as_str().unwrap_or("");
    let ranges: Vec<(usize, usize)> = case["ranges"].as_array().map(|a| a.iter().filter_map(|p| Some((p.get(0)?.as_u64()? as usize, p.get(1)?.as_u64()? as usize))).collect()).unwrap_or_default();
    if ranges.is_empty() {
        return Outcome::skip("tree-case-without-ranges");
    }
    let which = case["tree"].as_str().unwrap_or("child");
    let root_src = "mod child;\nfn  root_fn ( ) { let  x=1 ; }\nstruct  R{a:u8}\n";
    let dir = r.tmp.join(format!("c17-{}", r.case_no));
    let _ = std::fs::remove_dir_all(&dir);
    let _ = std::fs::create_dir_all(&dir);
    let _ = std::fs::write(dir.join("main.rs"), root_src);
    let _ = std::fs::write(dir.join("child.rs"), child_src);
    let dir = dir.canonicalize().unwrap_or(dir);
    let mut sel: Vec<Value> = vec![];
    let child_ranges: Vec<(usize, usize)> = if which != "root" { ranges.clone() } else { vec![] };
    let root_ranges: Vec<(usize, usize)> = if which != "child" { vec![(2, 2)] } else { vec![] };
    for (a, b) in &child_ranges {
        sel.push(json!({"file": dir.join("child.rs").to_string_lossy(), "range": [a, b]}));
    }
    for (a, b) in &root_ranges {
        sel.push(json!({"file": dir.join("main.rs").to_string_lossy(), "range": [a, b]}));
    }
    let args = vec!["--unstable-features".to_string(), "--file-lines".to_string(), Value::Array(sel).to_string(), "main.rs".to_string()];
    let Some((code, _out, err)) = crate::props::c13::run_rustfmt(r, &dir, &args, None) else {
        let _ = std::fs::remove_dir_all(&dir);
        return Outcome::skip("cannot-run-rustfmt");
    };
    let got_child = std::fs::read_to_string(dir.join("child.rs")).unwrap_or_default();
    let got_root = std::fs::read_to_string(dir.join("main.rs")).unwrap_or_default();
    let _ = std::fs::remove_dir_all(&dir);
    let expect = |text: &str, rs: &[(usize, usize)]| -> Option<String> {
        if rs.is_empty() {
            return Some(text.to_string());
        }
        let out = format_text(text, &vec![("file_lines".to_string(), ranges_json(rs))]);
        if out.emitted() { Some(out.text) } else { None }
    };
    let (Some(want_child), Some(want_root)) = (expect(child_src, &child_ranges), expect(root_src, &root_ranges)) else {
        return Outcome::skip("restricted-run-fails");
    };
    let mut o = Outcome::pass();
    o.labels.push(format!("tree:selection-names-{which}"));
    o.nontrivial = want_child != child_src || want_root != root_src;
    if code != Some(0) {
        return Outcome::fail("tree:exit-status", format!("exit {code:?}: {err}\nargs {args:?}")).nontrivial(true);
    }
    // blank lines at the very end of a file are not part of any item
    if got_child.trim_end() != want_child.trim_end() {
        return Outcome::fail(format!("tree:child-differs:{which}"), format!("child.rs (ranges {child_ranges:?}) is not what its own text gives under the same ranges\n--- child.rs before ---\n{child_src}\n--- after ---\n{got_child}\n--- expected ---\n{want_child}")).nontrivial(true);
    }
    if got_root.trim_end() != want_root.trim_end() {
        return Outcome::fail(format!("tree:root-differs:{which}"), format!("main.rs (ranges {root_ranges:?}) is not what its own text gives under the same ranges\n--- after ---\n{got_root}\n--- expected ---\n{want_root}")).nontrivial(true);
    }
    o
}

impl Property for C17 {
    fn id(&self) -> &'static str {
        "C17"
    }
    fn needs_corpus(&self) -> bool {
        false
    }
    fn params(&self, tier: Tier) -> Params {
        Params {
            cases: match tier {
                Tier::Quick => 100_000,
                Tier::Thorough => 1_500_000,
            },
            max_bytes: 256,
            timeout: Duration::from_secs(20),
        }
    }
    fn rule(&self) -> &'static str {
        "generated sources of 3..9 unformatted top-level items (functions whose statements stand on their own lines, structs, enums, constants, imports; outer attributes and doc comments that rustfmt would re-lay out; comments and blank lines in between) x 0..3 line ranges (aligned with items, cutting through functions, adjacent, overlapping, nested, empty list, empty ranges whose end lies before their start, past the end), formatted as standard input with --file-lines semantics through the API; oracle (spans from an independent parse of the input): every item that does not intersect the union of the ranges appears byte for byte, in order; every statement of an intersecting function that does not itself intersect appears byte for byte; a fully selected item equals its text in the unrestricted output; an empty selection returns the input unchanged; a range set and its merged union give identical output; with an empty selection no width/whitespace diagnostic is reported, and no such diagnostic ever points into an unselected item; one case in forty puts the source into an out-of-line module of a root given to the real binary by path, the selection naming the module's file, the root's file or both: every file must equal what its own text gives under its own ranges; non-trivial = at least one item selected and one unformatted item unselected; distinct by case content"
    }
    fn generate(&self, c: &mut Choices<'_>, _g: &GenCtx) -> Value {
        let n = 3 + c.below(7);
        let mut src = String::new();
        for i in 0..n {
            if c.chance(1, 4) {
                src.push_str(&format!("// comment before item {i}\n"));
            }
            if c.chance(1, 4) {
                // an outer attribute or doc comment rustfmt would re-lay out
                src.push_str(*c.pick(&["#[derive(Debug,Clone)]\n", "#[cfg( test )]\n", "///   documented\n", "#[allow(dead_code)]#[inline]\n", "#[derive(Debug)]\n#[derive(Clone)]\n"]));
            }
            if c.chance(2, 3) {
                src.push_str(&format!("fn  f{i} ( a:u8 )->u8{{\n"));
                let k = 1 + c.below(5);
                for _ in 0..k {
                    if c.chance(1, 8) {
                        src.push_str("// inner comment\n");
                    }
                    src.push_str(*c.pick(STMTS));
                    src.push('\n');
                }
                src.push_str("}\n");
            } else {
                src.push_str(*c.pick(ITEMS));
                src.push('\n');
            }
            if c.chance(1, 3) {
                src.push('\n');
            }
        }
        let total_lines = src.matches('\n').count();
        let nr = c.weighted(&[1, 4, 3, 2]);
        let mut ranges: Vec<(usize, usize)> = vec![];
        for _ in 0..nr {
            let a = 1 + c.below(total_lines + 2);
            let len = c.weighted(&[3, 3, 2, 1, 1]) * (1 + c.below(3));
            ranges.push((a, a + len));
        }
        if nr >= 2 && c.chance(1, 3) {
            // nested / adjacent variants
            let (a, b) = ranges[0];
            ranges[1] = match c.below(3) {
                0 => (a + 1, b.saturating_sub(1).max(a + 1)),
                1 => (b + 1, b + 3),
                _ => (a, b),
            };
        }
        if c.chance(1, 6) {
            // an empty range (end before start), alone or next to real ranges
            let a = 2 + c.below(total_lines + 1);
            ranges.push((a + c.below(3), a - 1));
        }
        let overflow = c.chance(1, 4);
        // one case in forty: the same source as an out-of-line module of a root given by path, the
        // selection naming the module's file (or the root's)
        let tree = if c.chance(1, 40) { Some(*c.pick(&["child", "root", "both"])) } else { None };
        json!({"src": src, "ranges": ranges, "diagnostics": overflow, "tree": tree})
    }
    fn run(&self, case: &Value, _r: &RunCtx) -> Outcome {
        if case["tree"].is_string() {
            return run_tree(case, _r);
        }
        let src = case["src"].as_str().unwrap_or("");
        let ranges: Vec<(usize, usize)> = case["ranges"].as_array().map(|a| a.iter().filter_map(|p| Some((p.get(0)?.as_u64()? as usize, p.get(1)?.as_u64()? as usize))).collect()).unwrap_or_default();
        let mut base: Opts = vec![];
        if case["diagnostics"].as_bool() == Some(true) {
            base.push(("error_on_line_overflow".into(), "true".into()));
            base.push(("error_on_unformatted".into(), "true".into()));
            base.push(("max_width".into(), "40".into()));
        }
        let mut opts = base.clone();
        opts.push(("file_lines".into(), ranges_json(&ranges)));
        // a range whose end lies before its start is empty: it selects nothing
        let given = ranges.clone();
        let ranges: Vec<(usize, usize)> = given.iter().copied().filter(|(a, b)| a <= b).collect();
        let full = format_text(src, &base);
        if !full.emitted() {
            return Outcome::skip("unrestricted-run-fails");
        }
        let out = format_text(src, &opts);
        if !out.emitted() {
            return Outcome::skip("restricted-run-fails");
        }
        let judge_known = case["judge_known"].as_bool().unwrap_or(false);
        let mut o = Outcome::pass();
        o.labels.push(format!("ranges:{}", ranges.len()));
        if given.len() != ranges.len() {
            o.labels.push("with-empty-range".into());
        }
        let fail = |class: &str, msg: String| -> Outcome { Outcome::fail(class.to_string(), format!("{msg}\nranges {ranges:?}\n--- input ---\n{src}\n--- output ---\n{}", out.text)).nontrivial(true) };
        // empty selection: nothing changes, nothing is reported
        if ranges.is_empty() {
            // (blank lines at the very end of the file are not part of any item)
            if out.text.trim_end() != src.trim_end() {
                return fail("empty-selection-changed-text", "an empty selection changed the text".into());
            }
            if out.errors.iter().any(|e| e.kind == "LineOverflow" || e.kind == "TrailingWhitespace") {
                return fail("empty-selection-diagnostics", format!("diagnostics {:?} for an empty selection", out.errors));
            }
            o.labels.push("empty-selection".into());
            o.nontrivial = false;
            return o;
        }
        // union behaves like the ranges
        let merged = merge(&ranges);
        if merged != given {
            let mut o2 = base.clone();
            o2.push(("file_lines".into(), ranges_json(&merged)));
            let m = format_text(src, &o2);
            if m.text != out.text {
                return fail("union-differs", format!("the merged union {merged:?} gives different output:\n{}", m.text));
            }
            o.labels.push("merged-union-compared".into());
        }
        let Some((items, _)) = top_items(src, "2015") else {
            return Outcome::skip("oracle-parse-failed");
        };
        let fns = top_fn_bodies(src, "2015").unwrap_or_default();
        let mut cursor = 0usize;
        let mut selected_any = false;
        let mut unselected_unformatted = false;
        let full_items = top_items(&full.text, "2015").map(|x| x.0).unwrap_or_default();
        let out_items = top_items(&out.text, "2015").map(|x| x.0);
        for (idx, it) in items.iter().enumerate() {
            let text = &src[it.lo..it.hi];
            let span = lines_of(src, it.lo, it.hi);
            if !intersects(&ranges, span) {
                // known class: a group of reorderable declarations is rewritten as a unit as soon
                // as one of its members is selected
                let group_member_selected = matches!(it.kind, "use" | "mod" | "extern_crate") && {
                    let mut lo = idx;
                    while lo > 0 && items[lo - 1].kind == it.kind {
                        lo -= 1;
                    }
                    let mut hi = idx;
                    while hi + 1 < items.len() && items[hi + 1].kind == it.kind {
                        hi += 1;
                    }
                    // (the lines of the declarations proper: a selection that only touches the
                    // attribute or doc-comment lines of a member leaves the group alone)
                    (lo..=hi).any(|j| intersects(&ranges, lines_of(src, items[j].decl_lo, items[j].hi)))
                };
                if group_member_selected && !judge_known {
                    if !o.excluded.iter().any(|x| x.contains("reorder-group")) {
                        o.excluded.push("known-class:reorder-group-partially-selected".into());
                    }
                    continue;
                }
                // byte for byte, in order
                match out.text[cursor..].find(text) {
                    Some(p) => cursor += p + text.len(),
                    None => {
                        if group_member_selected {
                            return fail("unselected-item-changed/reorder-group", format!("item {idx} (lines {span:?}) belongs to a group of reorderable declarations of which another member is selected; it was rewritten"));
                        }
                        return fail("unselected-item-changed", format!("item {idx} (lines {span:?}) does not intersect the selection but does not appear byte for byte (in order)"));
                    }
                }
                if full_items.get(idx).map(|f| &full.text[f.lo..f.hi] != text).unwrap_or(false) {
                    unselected_unformatted = true;
                }
                continue;
            }
            selected_any = true;
            let fully = merged.iter().any(|(lo, hi)| *lo <= span.0 && span.1 <= *hi);
            if fully {
                // formatted as without the restriction
                if let (Some(oi), Some(fi)) = (out_items.as_ref().and_then(|v| v.get(idx)), full_items.get(idx)) {
                    if items.len() == full_items.len() && out_items.as_ref().map(|v| v.len()) == Some(items.len()) && out.text[oi.lo..oi.hi] != full.text[fi.lo..fi.hi] {
                        return fail("selected-item-differs-from-unrestricted", format!("item {idx} (lines {span:?}) is fully selected but differs from the unrestricted output:\n{}\n---\n{}", &out.text[oi.lo..oi.hi], &full.text[fi.lo..fi.hi]));
                    }
                }
                continue;
            }
            // partially selected function: unselected statements stay byte for byte
            if let Some(f) = fns.iter().find(|f| f.lo == it.lo) {
                let mut c2 = cursor;
                for (slo, shi) in &f.stmts {
                    let sspan = lines_of(src, *slo, *shi);
                    if !intersects(&ranges, sspan) {
                        let stext = &src[*slo..*shi];
                        match out.text[c2..].find(stext) {
                            Some(p) => c2 += p + stext.len(),
                            None => return fail("unselected-statement-changed", format!("statement at lines {sspan:?} of a selected function does not intersect the selection but does not appear byte for byte")),
                        }
                    }
                }
                o.labels.push("partially-selected-fn".into());
            }
        }
        // diagnostics only for selected code: a width / blank report must not point into an item
        // that does not intersect the selection
        if let Some(out_items) = out_items.as_ref() {
            if out_items.len() == items.len() {
                for e in out.errors.iter().filter(|e| e.kind == "LineOverflow" || e.kind == "TrailingWhitespace") {
                    for (idx, oi) in out_items.iter().enumerate() {
                        let ospan = lines_of(&out.text, oi.lo, oi.hi);
                        if ospan.0 <= e.line && e.line <= ospan.1 {
                            let ispan = lines_of(src, items[idx].lo, items[idx].hi);
                            if !intersects(&ranges, ispan) {
                                // known class: the selection is applied to output line numbers;
                                // when selected code above changed its line count, lines of an
                                // unselected item can fall into the numeric range
                                let moved = ospan.0 != ispan.0;
                                if moved && intersects(&ranges, (e.line, e.line)) {
                                    if !judge_known {
                                        if !o.excluded.iter().any(|x| x.contains("output-line-numbers")) {
                                            o.excluded.push("known-class:selection-applied-to-output-line-numbers".into());
                                        }
                                        continue;
                                    }
                                    return fail("diagnostic-outside-selection/output-line-numbers", format!("{} reported at output line {} inside unselected item {idx} (input lines {ispan:?}, output lines {ospan:?})", e.kind, e.line));
                                }
                                return fail("diagnostic-outside-selection", format!("{} reported at output line {} inside item {idx}, which does not intersect the selection (input lines {ispan:?})", e.kind, e.line));
                            }
                        }
                    }
                }
                if case["diagnostics"].as_bool() == Some(true) {
                    o.labels.push("diagnostics-checked".into());
                }
            }
        }
        o.nontrivial = selected_any && unselected_unformatted;
        o
    }
}
