//! C09 Released style editions are frozen.

use std::io::{BufRead, BufReader, Write};
use std::process::{Child, ChildStdin, ChildStdout, Command, Stdio};
use std::sync::Mutex;
use std::time::Duration;

use serde_json::{json, Value};

use crate::choices::Choices;
use crate::engine::{GenCtx, Outcome, Params, Property, RunCtx, Tier};
use crate::fmt::{format_text, Opts};
use crate::gen::conf::{gen_conf, ConfSpace};
use crate::gen::prog::{gen_prog, render, ProgSpace, RenderOpts};
use crate::props::common::*;

pub struct C09;

pub const SPACE: ConfSpace = ConfSpace {
    exclude: &["style_edition"],
    exclude_values: &[],
    allow_2027: false,
    min_edition: "2015",
    max_extra: 4,
    whitespace_axes: false,
};

struct Frozen {
    child: Child,
    stdin: ChildStdin,
    stdout: BufReader<ChildStdout>,
}

static FROZEN: Mutex<Option<Frozen>> = Mutex::new(None);

/// Formats with the frozen reference build (pinned sources). None if the worker is unavailable.
fn frozen_format(r: &RunCtx, src: &str, opts: &Opts) -> Option<Value> {
    let mut g = FROZEN.lock().ok()?;
    for _attempt in 0..2 {
        if g.is_none() {
            let mut child = Command::new(&r.frozen_worker)
                .stdin(Stdio::piped())
                .stdout(Stdio::piped())
                .stderr(Stdio::null())
                .spawn()
                .ok()?;
            let stdin = child.stdin.take()?;
            let stdout = BufReader::new(child.stdout.take()?);
            *g = Some(Frozen { child, stdin, stdout });
        }
        let f = g.as_mut()?;
        let req = json!({"src": src, "opts": opts_to(opts)}).to_string() + "\n";
        let mut line = String::new();
        let ok = f.stdin.write_all(req.as_bytes()).is_ok() && f.stdin.flush().is_ok() && f.stdout.read_line(&mut line).map(|n| n > 0).unwrap_or(false);
        if ok {
            if let Ok(v) = serde_json::from_str::<Value>(&line) {
                return Some(v);
            }
        }
        // the reference worker died (abort / stack overflow on this input): restart once
        if let Some(mut f) = g.take() {
            let _ = f.child.kill();
            let _ = f.child.wait();
        }
        return Some(json!({"text": "", "clean": false, "emitted": false, "panic": true, "died": true}));
    }
    None
}

/// Groups of reorderable declarations (use items, use lists, mod and extern crate declarations)
/// whose names and aliases are ordered differently by the ASCII order of the editions up to 2021
/// and by the version sort of 2024 (digit runs, leading zeros, underscores, letter case), with
/// several declarations of the same name under different aliases.
fn gen_reorder_groups(c: &mut Choices<'_>) -> Value {
    const STEMS: &[&str] = &["serde", "v", "x_", "Foo", "foo", "m2024", "a", "Z", "u", "U", "lib_", "core"];
    const TAILS: &[&str] = &["", "1", "2", "9", "10", "010", "1_0", "_v9", "_v10", "_V10", "8", "16", "128", "_", "__a", "A", "b"];
    let name = |c: &mut Choices<'_>| format!("{}{}", *c.pick(STEMS), *c.pick(TAILS));
    let mut src = String::new();
    let groups = 1 + c.below(3);
    for g in 0..groups {
        let kind = c.below(4);
        let n = 2 + c.below(6);
        // few distinct names, so that the same name recurs under different aliases
        let pool: Vec<String> = (0..(1 + c.below(3))).map(|_| name(c)).collect();
        let mut seen: Vec<String> = vec![];
        let mut list: Vec<String> = vec![];
        for _ in 0..n {
            let base = if c.chance(2, 3) { c.pick(&pool).clone() } else { name(c) };
            // the alias often shares its stem with the other aliases of the group
            let alias = if kind != 2 && c.chance(1, 2) {
                if c.flip() {
                    format!(" as {}{}", pool[0].trim_end_matches(|ch: char| ch.is_ascii_digit() || ch == '_'), *c.pick(TAILS))
                } else {
                    format!(" as {}", name(c))
                }
            } else {
                String::new()
            };
            let decl = format!("{base}{alias}");
            if seen.contains(&decl) {
                continue;
            }
            seen.push(decl.clone());
            match kind {
                0 => src.push_str(&format!("use g{g}::{decl};\n")),
                1 => list.push(decl),
                2 => src.push_str(&format!("mod {decl};\n")),
                _ => src.push_str(&format!("extern crate {decl};\n")),
            }
        }
        if kind == 1 {
            src.push_str(&format!("use g{g}::{{{}}};\n", list.join(", ")));
        }
        src.push('\n');
    }
    src.push_str("fn main() {}\n");
    let opts = gen_conf(c, &SPACE);
    json!({"src": src, "opts": opts_to(&opts), "origin": "reorder-groups", "layout": 0})
}

/// One-line lists (arrays, call / macro / tuple arguments, struct literals, parameters, or-patterns,
/// operator and method chains, also inside macro calls and macro definitions) of multi-byte and
/// double-width elements, with max_width drawn from the window in which the line fits when
/// measured in columns but not when measured in bytes (and a little around it).
fn gen_wide_lists(c: &mut Choices<'_>) -> Value {
    const CHARS: &[&str] = &["'ä'", "'ö'", "'é'", "'ß'", "'日'", "'本'", "'✓'", "'a'"];
    const STRS: &[&str] = &["\"größe\"", "\"日本語\"", "\"naïve\"", "\"ü\"", "\"ab\""];
    const IDENTS: &[&str] = &["größe", "名前", "данные", "élan", "x1"];
    let kind = c.below(3);
    let n = 3 + c.below(22);
    let elems: Vec<String> = (0..n)
        .map(|_| match kind {
            0 => (*c.pick(CHARS)).to_string(),
            1 => (*c.pick(STRS)).to_string(),
            _ => (*c.pick(IDENTS)).to_string(),
        })
        .collect();
    let list = elems.join(", ");
    let stmt = match c.below(12) {
        0 => format!("    check!([{list}]);"),
        1 => format!("    let v = [{list}];"),
        2 => format!("    call({list});"),
        3 => format!("    m!({list});"),
        4 => format!("    let t = ({list});"),
        5 => format!("    let s = S {{ {} }};", elems.iter().enumerate().map(|(i, e)| format!("f{i}: {e}")).collect::<Vec<_>>().join(", ")),
        6 => format!("    let v = vec![{list}];"),
        7 => format!("    outer!(inner([{list}]));"),
        8 if kind == 2 => format!("    let x = {};", elems.join(" + ")),
        9 if kind == 2 => format!("    let y = {};", elems.iter().map(|e| format!("{e}()")).collect::<Vec<_>>().join(".")),
        10 if kind != 2 => format!("    match q {{\n        {} => 1,\n        _ => 0,\n    }}", elems.join(" | ")),
        _ => format!("    let r = obj.method([{list}], {});", elems[0]),
    };
    let src = match c.below(4) {
        0 => format!("macro_rules! mm {{\n    () => {{\n    {}\n    }};\n}}\n", stmt.trim_start()),
        1 if kind == 2 => format!("fn f({}) {{\n{stmt}\n}}\n", elems.iter().take(8).map(|e| format!("{e}: T")).collect::<Vec<_>>().join(", ")),
        _ => format!("fn main() {{\n{stmt}\n}}\n"),
    };
    let first = stmt.lines().nth(if stmt.contains('\n') { 1 } else { 0 }).unwrap_or("");
    let bytes = first.len();
    let cols: usize = first.chars().map(|ch| if (ch as u32) >= 0x1100 { 2 } else { 1 }).sum();
    let lo = cols.min(bytes).saturating_sub(6);
    let hi = cols.max(bytes) + 6;
    // the thresholds derived from max_width (array_width, fn_call_width, ...) scale the window
    let scale = [100usize, 100, 60, 70][c.below(4)];
    let w = ((lo + c.below(hi - lo + 1)) * 100 / scale).clamp(20, 200);
    let mut opts: Opts = vec![("max_width".into(), w.to_string())];
    if c.chance(1, 4) {
        opts.push(("use_small_heuristics".into(), (*c.pick(&["Max", "Off"])).to_string()));
    }
    if c.chance(1, 5) {
        opts.push(("indent_style".into(), "Visual".into()));
    }
    if c.chance(1, 6) {
        opts.push(("hard_tabs".into(), "true".into()));
    }
    json!({"src": src, "opts": opts_to(&opts), "origin": "wide-lists", "layout": 0})
}

impl Property for C09 {
    fn id(&self) -> &'static str {
        "C09"
    }
    fn params(&self, tier: Tier) -> Params {
        Params {
            cases: match tier {
                Tier::Quick => 8_000,
                Tier::Thorough => 100_000,
            },
            max_bytes: 1024,
            timeout: Duration::from_secs(40),
        }
    }
    fn rule(&self) -> &'static str {
        "corpus grid cells, generated programs and generated groups of reorderable declarations (names and aliases on which the ASCII order and the version sort disagree, the same name under several aliases) x random options, and one-line lists of multi-byte / double-width elements (arrays, arguments, struct literals, parameters, or-patterns, chains; also inside macro calls and definitions) at widths where the byte length and the column width of the line fall on different sides of max_width and of the limits derived from it (style_edition excluded from the draw); each case is formatted under style editions 2015, 2018, 2021 and 2024 by the working tree (in-process) and by the frozen reference build of the pinned sources; oracle: (a) the 2015/2018/2021 outputs of the working tree are identical, (b) for every released edition the working tree's output equals the reference output byte for byte whenever the reference formats without error; non-trivial = some output differs from the input; distinct by case content"
    }
    fn assumptions(&self) -> Vec<&'static str> {
        vec!["/verif/frozen is a byte copy of src/ and config_proc_macro/ at the audited commit, built with the same toolchain and profile; both sides run the same request through the same public API"]
    }
    fn enum_len(&self, g: &GenCtx) -> usize {
        grid_len(g, 40_000, 400_000)
    }
    fn enum_case(&self, g: &GenCtx, i: usize) -> Option<Value> {
        let n = self.enum_len(g);
        let cell = grid_pick(g, "C09", n, i, &SPACE, false);
        Some(cell_case(&cell))
    }
    fn generate(&self, c: &mut Choices<'_>, _g: &GenCtx) -> Value {
        if c.chance(1, 4) {
            return gen_reorder_groups(c);
        }
        if c.chance(1, 4) {
            return gen_wide_lists(c);
        }
        let p = gen_prog(c, &ProgSpace::default());
        let wild = c.weighted(&[3, 3, 2, 2]);
        let comment_p = if c.chance(1, 3) { 3 } else { 0 };
        let r = render(&p, c, &RenderOpts { wild, comment_p, ..Default::default() });
        let space = ConfSpace { min_edition: p.min_edition, ..SPACE };
        let mut opts = gen_conf(c, &space);
        if p.only_2015 {
            for o in opts.iter_mut() {
                if o.0 == "edition" {
                    o.1 = "2015".into();
                }
            }
        }
        json!({"src": r.text, "opts": opts_to(&opts), "origin": "prog", "layout": wild})
    }
    fn run(&self, case: &Value, r: &RunCtx) -> Outcome {
        let src = case["src"].as_str().unwrap_or("");
        let mut base = opts_from(&case["opts"]);
        base.retain(|(k, _)| k != "style_edition");
        let origin = case["origin"].as_str().unwrap_or("");
        let key = crate::props::c02::chunk_key(origin);
        let mut o = Outcome::pass();
        o.labels.extend(conf_labels(&base));
        let mut outs: Vec<(String, crate::fmt::FmtOut)> = vec![];
        let mut judged = 0;
        for se in ["2015", "2018", "2021", "2024"] {
            let mut opts = base.clone();
            opts.insert(0, ("style_edition".into(), se.into()));
            let mine = format_text(src, &opts);
            let Some(reference) = frozen_format(r, src, &opts) else {
                return Outcome::skip("reference-worker-unavailable");
            };
            if reference["clean"].as_bool() == Some(true) {
                judged += 1;
                let want = reference["text"].as_str().unwrap_or("");
                if !mine.clean() {
                    let mut f = Outcome::fail(
                        format!("regressed-to-error:{se}@{key}"),
                        format!("style_edition {se}: the pinned release formats this input without error, the working tree reports err={:?} parse={} panic={:?}", mine.err, mine.has_parsing_errors, mine.escaped_panic),
                    );
                    f.labels = o.labels;
                    f.nontrivial = true;
                    return f;
                }
                if mine.text != want {
                    let mut f = Outcome::fail(
                        format!("differs-from-pinned:{se}@{key}"),
                        format!("style_edition {se}: output differs from the pinned release; {}", first_diff(want, &mine.text)),
                    );
                    f.labels = o.labels;
                    f.nontrivial = true;
                    return f;
                }
                if mine.text != src {
                    o.nontrivial = true;
                }
            } else {
                o.labels.push(format!("reference-not-clean:{se}"));
            }
            outs.push((se.to_string(), mine));
        }
        if judged == 0 {
            return Outcome::skip("pinned-release-reports-error");
        }
        // (a) 2015 = 2018 = 2021
        let base15 = &outs[0].1;
        for (se, out) in &outs[1..3] {
            if out.clean() != base15.clean() || (out.clean() && out.text != base15.text) {
                let mut f = Outcome::fail(
                    format!("editions-differ:2015-vs-{se}@{key}"),
                    format!("style editions 2015 and {se} give different text; {}", first_diff(&base15.text, &out.text)),
                );
                f.labels = o.labels;
                f.nontrivial = true;
                return f;
            }
        }
        if outs[3].1.text != base15.text {
            o.labels.push("2024-differs-from-2015".into());
        }
        o
    }
}
