//! C13 Exactly the reachable, non-excluded files are formatted, each once.

use std::process::{Command, Stdio};
use std::time::Duration;

use serde_json::{json, Value};

use crate::choices::Choices;
use crate::engine::{GenCtx, Outcome, Params, Property, RunCtx, Tier};
use crate::fmt::format_text;
use crate::gen::tree::{gen_tree, snapshot, Role, Tree, TreeSpace};

pub struct C13;

pub fn run_rustfmt(r: &RunCtx, cwd: &std::path::Path, args: &[String], stdin: Option<&str>) -> Option<(Option<i32>, String, String)> {
    use std::io::Write;
    let mut cmd = Command::new(r.bin_dir.join("rustfmt"));
    cmd.args(args)
        .current_dir(cwd)
        .env("RUSTC_ICE", "0")
        .env("HOME", cwd)
        .env("XDG_CONFIG_HOME", cwd.join(".xdg-none"))
        .env_remove("RUSTFMT_LOG")
        .stdin(if stdin.is_some() { Stdio::piped() } else { Stdio::null() })
        .stdout(Stdio::piped())
        .stderr(Stdio::piped());
    let mut child = cmd.spawn().ok()?;
    if let Some(text) = stdin {
        if let Some(mut si) = child.stdin.take() {
            let _ = si.write_all(text.as_bytes());
        }
    }
    let out = child.wait_with_output().ok()?;
    Some((out.status.code(), String::from_utf8_lossy(&out.stdout).into_owned(), String::from_utf8_lossy(&out.stderr).into_owned()))
}

impl Property for C13 {
    fn id(&self) -> &'static str {
        "C13"
    }
    fn needs_corpus(&self) -> bool {
        false
    }
    fn params(&self, tier: Tier) -> Params {
        Params {
            cases: match tier {
                Tier::Quick => 5_000,
                Tier::Thorough => 60_000,
            },
            max_bytes: 256,
            timeout: Duration::from_secs(60),
        }
    }
    fn rule(&self) -> &'static str {
        "generated crate trees (depth <= 3: name.rs / name/mod.rs, #[path] into the same and other directories, inline nesting, cfg_if! branches (also with an inline module that declares an out-of-line one), cfg_match! arms, the fallback to the declaring file's own directory, cfg_attr(path), a file reached twice (under one spelling of its path or under two, `x.rs` and `updir/../x.rs`), decoy files nobody declares, #[rustfmt::skip] on the declaration, inner skip, ignore entries (also one matching the root itself), @generated with format_generated_files=false, #[rustfmt::skip] on an inline module that declares an out-of-line one (present or missing), skip_children, root given as a relative or an absolute path), every file unformatted; the real binary runs in files mode on a copy (one case in four instead feeds the root on standard input: nothing may be written, the root's formatted text is printed); one case in twelve declares a module that is ambiguous (name.rs and name/mod.rs both present) or missing, in the root or one level down, with same-named files in neighbouring directories: rustfmt must exit with 1 and change nothing; oracle: a reference model built from the Rust Reference's module file rules says which files are reachable and not excluded; the set of files whose bytes changed must equal that set, every changed file must hold exactly its own formatted text, no file may appear twice in the report of a preceding read-only `--emit json` run (formatted once), exit status 0; non-trivial = the tree has a decoy or an exclusion and at least 3 files; distinct by case content"
    }
    fn assumptions(&self) -> Vec<&'static str> {
        vec!["skipped / inner-skipped / ignored / @generated modules are generated as leaves (what happens to their children is not claimed)", "a file's expected text is what the same bytes give on standard input under the default configuration"]
    }
    fn generate(&self, c: &mut Choices<'_>, _g: &GenCtx) -> Value {
        if c.chance(1, 12) {
            // "an ambiguous or missing module is an error rather than a guess": the declaring
            // file is the root or a name.rs / mod.rs module one level down; files the resolver
            // might be tempted by lie in the neighbouring directories
            let level = c.below(3); // 0: declared in the root, 1: in a.rs, 2: in a/mod.rs
            let ambiguous = c.flip();
            let mut files: Vec<(String, String)> = vec![];
            let body = |n: &str| format!("pub fn  in_{n} ( ) {{  }}\n");
            let (decl_file, module_dir) = match level {
                0 => ("main.rs".to_string(), "".to_string()),
                1 => ("a.rs".to_string(), "a/".to_string()),
                _ => ("a/mod.rs".to_string(), "a/".to_string()),
            };
            if level > 0 {
                files.push(("main.rs".into(), format!("mod a;\n{}", body("root"))));
            }
            files.push((decl_file.clone(), format!("mod b;\n{}", body("decl"))));
            if ambiguous {
                files.push((format!("{module_dir}b.rs"), body("b_file")));
                files.push((format!("{module_dir}b/mod.rs"), body("b_dir")));
            }
            // tempting files elsewhere
            for (i, p) in ["b.rs", "other/b.rs", "a/b/c/b.rs", "b/b.rs"].iter().enumerate() {
                if c.chance(1, 2) && !files.iter().any(|f| f.0 == *p) && !(module_dir.is_empty() && (*p == "b.rs"))
                    // (a missing nested module of a name.rs file falls back to that file's own
                    // directory, as documented: b.rs there would resolve it)
                    && !(level == 1 && !ambiguous && *p == "b.rs")
                {
                    files.push((p.to_string(), body(&format!("tempting{i}"))));
                }
            }
            let files: Vec<Value> = files.into_iter().map(|(p, c)| json!({"path": p, "content": c})).collect();
            return json!({"kind": "unresolvable", "files": files, "ambiguous": ambiguous});
        }
        let t = gen_tree(c, &TreeSpace::default());
        let abs = c.flip();
        json!({"tree": t, "abs": abs, "stdin": c.chance(1, 4)})
    }
    fn run(&self, case: &Value, r: &RunCtx) -> Outcome {
        if case["kind"].as_str() == Some("unresolvable") {
            let dir = r.tmp.join(format!("c13u-{}", r.case_no));
            let _ = std::fs::remove_dir_all(&dir);
            for f in case["files"].as_array().into_iter().flatten() {
                let p = dir.join(f["path"].as_str().unwrap_or("x.rs"));
                let _ = std::fs::create_dir_all(p.parent().unwrap());
                let _ = std::fs::write(&p, f["content"].as_str().unwrap_or(""));
            }
            let before = snapshot(&dir);
            let Some((code, _out, err)) = run_rustfmt(r, &dir, &["main.rs".to_string()], None) else {
                let _ = std::fs::remove_dir_all(&dir);
                return Outcome::skip("cannot-run-rustfmt");
            };
            let after = snapshot(&dir);
            let _ = std::fs::remove_dir_all(&dir);
            let what = if case["ambiguous"].as_bool() == Some(true) { "ambiguous" } else { "missing" };
            let mut o = Outcome::pass();
            o.labels.push(format!("unresolvable:{what}"));
            o.nontrivial = true;
            if code != Some(1) {
                return Outcome::fail(format!("unresolvable-module-accepted:{what}"), format!("`mod b;` is {what}, yet rustfmt exits with {code:?}\nstderr: {err}\nfiles {:?}", before.keys().collect::<Vec<_>>())).nontrivial(true);
            }
            if after != before {
                let changed: Vec<&String> = before.keys().filter(|k| after.get(*k) != before.get(*k)).collect();
                return Outcome::fail(format!("unresolvable-module-wrote:{what}"), format!("`mod b;` is {what} (exit {code:?}), yet {changed:?} changed\nfiles {:?}", before.keys().collect::<Vec<_>>())).nontrivial(true);
            }
            return o;
        }
        let tree: Tree = match serde_json::from_value(case["tree"].clone()) {
            Ok(t) => t,
            Err(_) => return Outcome::skip("bad-case"),
        };
        let dir = r.tmp.join(format!("c13-{}", r.case_no));
        tree.write_to(&dir);
        let before = snapshot(&dir);
        if case["stdin"].as_bool() == Some(true) {
            // the root on standard input (from the root's directory): no child is visited, no file
            // is written, and the root's formatted text is printed
            let root_src = tree.files.iter().find(|f| f.path == tree.root).map(|f| f.content.clone()).unwrap_or_default();
            let cwd = dir.join(&tree.root).parent().map(|p| p.to_path_buf()).unwrap_or(dir.clone());
            let Some((code, out, err)) = run_rustfmt(r, &cwd, &[], Some(&root_src)) else {
                let _ = std::fs::remove_dir_all(&dir);
                return Outcome::skip("cannot-run-rustfmt");
            };
            let after = snapshot(&dir);
            let _ = std::fs::remove_dir_all(&dir);
            let mut o = Outcome::pass();
            o.labels.push("stdin-root".into());
            o.nontrivial = tree.files.len() >= 3;
            if after != before {
                let changed: Vec<&String> = before.keys().filter(|k| after.get(*k) != before.get(*k)).collect();
                return Outcome::fail("stdin:file-changed", format!("formatting the root from standard input changed {changed:?}")).nontrivial(true);
            }
            let want = format_text(&root_src, &vec![]);
            if !want.clean() {
                return Outcome::skip("module-does-not-format");
            }
            // a root-ignored tree has an ignore entry in rustfmt.toml; ignore does not apply to stdin
            if code != Some(0) || out != want.text {
                return Outcome::fail("stdin:wrong-output", format!("exit {code:?}; stdout {out:?}\nexpected {:?}\nstderr {err}", want.text)).nontrivial(true);
            }
            return o;
        }
        let mut args: Vec<String> = vec![];
        if tree.skip_children {
            args.push("--config".into());
            args.push("skip_children=true".into());
        }
        if case["abs"].as_bool() == Some(true) {
            args.push(dir.join(&tree.root).to_string_lossy().into_owned());
        } else {
            args.push(tree.root.clone());
        }
        // "each such file is formatted once even if reached twice": the json report (read-only)
        // has one entry per emitted file that differs
        let mut jargs: Vec<String> = vec!["--emit".into(), "json".into()];
        jargs.extend(args.iter().cloned());
        let mut emitted_twice: Option<String> = None;
        if let Some((_c, jout, _e)) = run_rustfmt(r, &dir, &jargs, None) {
            if let Ok(Value::Array(entries)) = serde_json::from_str::<Value>(&jout) {
                let mut seen: std::collections::BTreeSet<std::path::PathBuf> = Default::default();
                for e in &entries {
                    if let Some(n) = e["name"].as_str() {
                        let p = dir.join(n);
                        let canon = std::fs::canonicalize(&p).unwrap_or(p);
                        if !seen.insert(canon) {
                            emitted_twice = Some(n.to_owned());
                        }
                    }
                }
            }
        }
        if snapshot(&dir) != before {
            let _ = std::fs::remove_dir_all(&dir);
            return Outcome::fail("json-mode-wrote", "--emit json changed the tree".to_string()).nontrivial(true);
        }
        let Some((code, _out, err)) = run_rustfmt(r, &dir, &args, None) else {
            let _ = std::fs::remove_dir_all(&dir);
            return Outcome::skip("cannot-run-rustfmt");
        };
        let after = snapshot(&dir);
        let _ = std::fs::remove_dir_all(&dir);
        let mut o = Outcome::pass();
        for l in &tree.labels {
            o.labels.push(format!("tree:{l}"));
        }
        o.labels.push(format!("files:{}", tree.files.len().min(12)));
        let has_special = tree.files.iter().any(|f| matches!(f.role, Role::Decoy | Role::Excluded));
        o.nontrivial = has_special && tree.files.len() >= 3;
        let listing = || -> String { tree.files.iter().map(|f| format!("--- {} [{:?}]\n{}", f.path, f.role, f.content)).collect::<Vec<_>>().join("") };
        if let Some(n) = emitted_twice {
            return Outcome::fail("emitted-twice", format!("{n} appears twice in the json report: the file is formatted twice\n{}", listing())).nontrivial(true);
        }
        if code != Some(0) {
            return Outcome::fail("exit-status", format!("rustfmt {:?} exited with {code:?}\nstderr: {err}\n{}", args, listing())).nontrivial(true);
        }
        // new or deleted files
        for k in after.keys() {
            if !before.contains_key(k) {
                return Outcome::fail("file-created", format!("{k} was created\n{}", listing())).nontrivial(true);
            }
        }
        let expected: Vec<&str> = tree.expected().iter().map(|f| f.path.as_str()).collect();
        for f in &tree.files {
            let Some(now) = after.get(&f.path) else {
                return Outcome::fail("file-deleted", format!("{} disappeared\n{}", f.path, listing())).nontrivial(true);
            };
            let changed = now.as_slice() != f.content.as_bytes();
            let should = expected.contains(&f.path.as_str());
            if should {
                let want = format_text(&f.content, &vec![]);
                if !want.clean() {
                    return Outcome::skip("module-does-not-format");
                }
                if now.as_slice() != want.text.as_bytes() {
                    let class = if changed { "wrong-content" } else { "reachable-file-not-formatted" };
                    return Outcome::fail(
                        format!("{class}:{:?}", f.role),
                        format!("{} [{:?}] should hold its formatted text; it holds {:?}\nstderr: {err}\n{}", f.path, f.role, String::from_utf8_lossy(now), listing()),
                    )
                    .nontrivial(true);
                }
            } else if changed {
                return Outcome::fail(format!("unexpected-file-changed:{:?}", f.role), format!("{} [{:?}] was modified\n{}", f.path, f.role, listing())).nontrivial(true);
            }
        }
        o
    }
}
