//! C05 A failing run never damages source files.

use std::time::Duration;

use serde_json::{json, Value};

use crate::choices::Choices;
use crate::engine::{GenCtx, Outcome, Params, Property, RunCtx, Tier};
use crate::fmt::format_text;
use crate::gen::tree::{gen_tree, snapshot, Role, Tree, TreeSpace};
use crate::props::c13::run_rustfmt;

pub struct C05;

const FAULTS: &[&str] = &["unterminated-string", "unterminated-comment", "unclosed-delimiter", "token-soup", "bad-char-literal", "bad-escape", "bad-number", "missing-file", "ambiguous-module", "bad-toml", "required-version", "missing-root"];
const MODES: &[&str] = &["files", "check", "stdout", "json", "files-backup"];

fn mode_args(mode: &str) -> Vec<String> {
    match mode {
        "check" => vec!["--check".into()],
        "stdout" => vec!["--emit".into(), "stdout".into()],
        "json" => vec!["--emit".into(), "json".into()],
        "files-backup" => vec!["--backup".into()],
        _ => vec![],
    }
}

impl Property for C05 {
    fn id(&self) -> &'static str {
        "C05"
    }
    fn needs_corpus(&self) -> bool {
        false
    }
    fn params(&self, tier: Tier) -> Params {
        Params {
            cases: match tier {
                Tier::Quick => 5_000,
                Tier::Thorough => 60_000,
            },
            max_bytes: 256,
            timeout: Duration::from_secs(60),
        }
    }
    fn rule(&self) -> &'static str {
        "generated crate trees with every file unformatted and one injected fault (unterminated string / block comment, unclosed delimiter, token soup, missing module file, both name.rs and name/mod.rs, malformed rustfmt.toml, required_version mismatch, missing root path) at a chosen position of the visiting order (root, inner module, last module), x emit mode (files, --check, stdout, json, files with --backup), optionally with a second healthy root named before or after the failing one on the same command line; the real binary runs on a copy; oracle: every file below the failing root keeps its exact bytes, no file is created, stderr carries a diagnostic, the exit status is 1, and the healthy root is formatted exactly as in a run of its own (files modes) whatever its position; non-trivial = the fault is not in the root file, the tree has at least 3 files, and the run without the fault would rewrite at least 2 files; distinct by case content"
    }
    fn generate(&self, c: &mut Choices<'_>, _g: &GenCtx) -> Value {
        let t = gen_tree(c, &TreeSpace { exclusions: false, decoys: true, exotic: true, ..TreeSpace::default() });
        let fault = *c.pick(FAULTS);
        let mode = *c.pick(MODES);
        // position: an expected (reachable) file
        let n = t.expected().len();
        let pos = match c.below(3) {
            0 => 0,
            1 => n.saturating_sub(1),
            _ => c.below(n.max(1)),
        };
        let second = match c.below(3) {
            0 => "none",
            1 => "before",
            _ => "after",
        };
        let healthy = gen_tree(c, &TreeSpace { max_depth: 2, exclusions: false, decoys: false, exotic: false, ..TreeSpace::default() });
        let uplevel = c.flip();
        json!({"tree": t, "fault": fault, "mode": mode, "pos": pos, "second": second, "healthy": healthy, "uplevel": uplevel})
    }
    fn run(&self, case: &Value, r: &RunCtx) -> Outcome {
        let (Ok(mut tree), Ok(healthy)) = (serde_json::from_value::<Tree>(case["tree"].clone()), serde_json::from_value::<Tree>(case["healthy"].clone())) else {
            return Outcome::skip("bad-case");
        };
        let fault = case["fault"].as_str().unwrap_or("");
        let mode = case["mode"].as_str().unwrap_or("files");
        let second = case["second"].as_str().unwrap_or("none");
        let judge_known = case["judge_known"].as_bool().unwrap_or(false);
        let exp: Vec<usize> = tree.files.iter().enumerate().filter(|(_, f)| matches!(f.role, Role::Root | Role::Module)).map(|(i, _)| i).collect();
        let pos = (case["pos"].as_u64().unwrap_or(0) as usize).min(exp.len().saturating_sub(1));
        let mut target = exp[pos];
        let would_rewrite = exp.len();
        let mut root_arg = tree.root.clone();
        // inject the fault
        let mut extra: Vec<(String, String)> = vec![];
        let mut removed: Option<String> = None;
        match fault {
            "unterminated-string" => tree.files[target].content.push_str("fn broken() { let s = \"abc; }\n"),
            "unterminated-comment" => tree.files[target].content.push_str("fn broken() { /* abc }\n"),
            "unclosed-delimiter" => tree.files[target].content.push_str("fn broken( {\n"),
            "token-soup" => tree.files[target].content.push_str("fn ) ( } {{ ;; struct\n"),
            // lexer errors that do not stop the lexer
            "bad-char-literal" => tree.files[target].content.push_str("fn broken() { let c = 'ab'; }\n"),
            "bad-escape" => tree.files[target].content.push_str("fn broken() { let s = \"\\q\"; }\n"),
            "bad-number" => tree.files[target].content.push_str("fn broken() { let n = 0b12; let e = 1e; }\n"),
            "missing-file" | "ambiguous-module" => {
                // needs a module file that is declared by a plain `mod name;` (name.rs or name/mod.rs)
                let cand: Vec<usize> = exp.iter().copied().filter(|i| matches!(tree.files[*i].decl.as_str(), "plain" | "inline")).collect();
                let Some(&t) = cand.get(pos.min(cand.len().saturating_sub(1))) else {
                    return Outcome::skip("no-plain-module-to-break");
                };
                target = t;
                let p = tree.files[t].path.clone();
                if fault == "missing-file" {
                    removed = Some(p);
                } else {
                    let twin = if let Some(stem) = p.strip_suffix("/mod.rs") { format!("{stem}.rs") } else { format!("{}/mod.rs", p.trim_end_matches(".rs")) };
                    extra.push((twin, "pub fn  twin ( ) { }\n".into()));
                    // optionally a module of the same name one directory up (a tempting fallback)
                    if case["uplevel"].as_bool() == Some(true) {
                        let stem = p.strip_suffix("/mod.rs").unwrap_or(p.trim_end_matches(".rs")).to_string();
                        if let Some((d, name)) = stem.rsplit_once('/') {
                            let up = match d.rsplit_once('/') {
                                Some((dd, _)) => format!("{dd}/{name}.rs"),
                                None => format!("{name}.rs"),
                            };
                            if !tree.files.iter().any(|f| f.path == up) {
                                extra.push((up, "pub fn  uplevel ( ) { }\n".into()));
                            }
                        }
                    }
                }
            }
            "bad-toml" => extra.push(("rustfmt.toml".into(), "max_width = \n".into())),
            "required-version" => extra.push(("rustfmt.toml".into(), "required_version = \"0.0.1\"\n".into())),
            "missing-root" => root_arg = "does_not_exist.rs".into(),
            _ => return Outcome::skip("unknown-fault"),
        }
        let dir = r.tmp.join(format!("c05-{}", r.case_no));
        let bad_dir = dir.join("bad");
        let good_dir = dir.join("good");
        let _ = std::fs::remove_dir_all(&dir);
        tree.write_to(&bad_dir);
        for (p, c) in &extra {
            let fp = bad_dir.join(p);
            if let Some(parent) = fp.parent() {
                let _ = std::fs::create_dir_all(parent);
            }
            let _ = std::fs::write(fp, c);
        }
        if let Some(p) = &removed {
            let _ = std::fs::remove_file(bad_dir.join(p));
        }
        healthy.write_to(&good_dir);
        let before_bad = snapshot(&bad_dir);
        let mut args = mode_args(mode);
        let bad_arg = bad_dir.join(&root_arg).to_string_lossy().into_owned();
        let good_arg = good_dir.join(&healthy.root).to_string_lossy().into_owned();
        match second {
            "before" => {
                args.push(good_arg);
                args.push(bad_arg);
            }
            "after" => {
                args.push(bad_arg);
                args.push(good_arg);
            }
            _ => args.push(bad_arg),
        }
        let Some((code, _stdout, stderr)) = run_rustfmt(r, &dir, &args, None) else {
            let _ = std::fs::remove_dir_all(&dir);
            return Outcome::skip("cannot-run-rustfmt");
        };
        let after_bad = snapshot(&bad_dir);
        let after_good = snapshot(&good_dir);
        let _ = std::fs::remove_dir_all(&dir);
        let mut o = Outcome::pass();
        o.labels.push(format!("fault:{fault}"));
        o.labels.push(format!("mode:{mode}"));
        o.labels.push(format!("second-root:{second}"));
        o.labels.push(if target == exp[0] && !matches!(fault, "bad-toml" | "required-version" | "missing-root") { "fault-in-root".to_string() } else { "fault-not-in-root".to_string() });
        o.nontrivial = target != exp[0] && tree.files.len() >= 3 && would_rewrite >= 2;
        let ctx = || -> String { format!("fault {fault} in {} | mode {mode} | second root {second} | args {:?}\nstderr: {}", tree.files[target].path, args, stderr.chars().take(600).collect::<String>()) };
        // (D8, fixed: a malformed configuration next to one root used to abort the whole
        // invocation, so a healthy root named after it was not formatted)
        let d8 = matches!(fault, "bad-toml") && second == "after";
        // 1. nothing below the failing root changes
        if after_bad != before_bad {
            let changed: Vec<&String> = after_bad.iter().filter(|(k, v)| before_bad.get(*k) != Some(*v)).map(|(k, _)| k).collect();
            let missing: Vec<&String> = before_bad.keys().filter(|k| !after_bad.contains_key(*k)).collect();
            return Outcome::fail(format!("files-changed:{fault}"), format!("files changed {changed:?}, removed {missing:?}\n{}", ctx())).nontrivial(true);
        }
        // 2. diagnostic and exit status
        if stderr.trim().is_empty() {
            return Outcome::fail(format!("no-diagnostic:{fault}"), ctx()).nontrivial(true);
        }
        if code != Some(1) {
            return Outcome::fail(format!("exit-status:{fault}:{code:?}"), ctx()).nontrivial(true);
        }
        // 3. the healthy root is processed as in a run of its own
        if second != "none" {
            let writes = matches!(mode, "files" | "files-backup");
            for f in &healthy.files {
                let now = after_good.get(&f.path);
                let expect_formatted = writes && matches!(f.role, Role::Root | Role::Module);
                let want = if expect_formatted {
                    let w = format_text(&f.content, &vec![]);
                    if !w.clean() {
                        return Outcome::skip("healthy-module-does-not-format");
                    }
                    w.text.into_bytes()
                } else {
                    f.content.clone().into_bytes()
                };
                if now.map(|b| b.as_slice()) != Some(want.as_slice()) {
                    let _ = judge_known;
                    let class = if d8 { "healthy-root-not-formatted:bad-config-before".to_string() } else { format!("healthy-root:{second}:{fault}") };
                    return Outcome::fail(class, format!("healthy root file {} is not what a run of its own leaves\n{}", f.path, ctx())).nontrivial(true);
                }
            }
        }
        o
    }
}
