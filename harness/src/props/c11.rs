//! C11 Reordering is a deterministic, order-insensitive permutation.

use std::cmp::Ordering;
use std::time::Duration;

use serde_json::{json, Value};

use crate::choices::Choices;
use crate::engine::{GenCtx, Outcome, Params, Property, RunCtx, Tier};
use crate::fmt::{format_text, Opts};

pub struct C11;

/// identifiers over letters of both cases, digits with leading zeros, underscores, raw idents
const NAMES: &[&str] = &[
    "a", "A", "b", "B", "z", "Z", "a1", "a01", "a001", "a2", "a10", "a9", "A1", "A01", "A10", "a_1", "a_01", "a_b", "a_B", "aB", "Ab", "AB", "ab", "_a", "_A", "__a", "_1", "_01", "a1b", "a01b", "a1B", "a10b", "a2b",
    "x9", "x10", "x09", "x009", "X9", "X10", "x1y2", "x1y10", "x01y2", "r#type", "r#match", "r#a", "r#A1", "zz", "zZ", "Zz", "ZZ", "z_", "z_z", "z0", "z00", "abc", "ABC", "Abc", "aBC", "abc1", "abc01", "abc10", "u8",
    "U8", "u16", "u32", "u128", "U16", "v1_2", "v1_10", "v01_2", "m", "M", "n0", "N0", "n_0", "self_", "Self_", "super_x", "crate_x",
    // long digit runs (beyond u32, near u64)
    "v5", "v4294967295", "v4294967296", "v10000000000", "m20240101120000_a", "m20240101120000_b", "m20240101120001_a", "v9223372036854775807", "v9223372036854775808",
];

#[derive(Debug, Clone, Copy, PartialEq, Eq)]
enum Kind {
    UseItems,
    UseList,
    Mods,
    ExternCrates,
}

impl Kind {
    fn name(self) -> &'static str {
        match self {
            Kind::UseItems => "use-items",
            Kind::UseList => "use-list",
            Kind::Mods => "mods",
            Kind::ExternCrates => "extern-crates",
        }
    }
    fn from(s: &str) -> Kind {
        match s {
            "use-list" => Kind::UseList,
            "mods" => Kind::Mods,
            "extern-crates" => Kind::ExternCrates,
            _ => Kind::UseItems,
        }
    }
}

#[derive(Debug, Clone)]
struct Elem {
    name: String,
    attr: Option<String>,
    comment: Option<String>,
}

fn render_group(kind: Kind, elems: &[Elem]) -> String {
    let mut s = String::new();
    match kind {
        Kind::UseList => {
            // an attribute or doc comment on the whole import (carried by one of the elements;
            // the smallest one is taken so that the rendering does not depend on their order)
            if let Some(a) = elems.iter().filter_map(|e| e.attr.as_ref()).min() {
                if a.starts_with("///") {
                    s.push_str(&format!("{a}\n"));
                } else {
                    s.push_str(&format!("#[{a}]\n"));
                }
            }
            s.push_str("use m::{");
            for (i, e) in elems.iter().enumerate() {
                if i > 0 {
                    s.push_str(", ");
                }
                s.push_str(&e.name);
            }
            s.push_str("};\n");
        }
        _ => {
            for e in elems {
                if let Some(a) = &e.attr {
                    s.push_str(&format!("#[{a}]\n"));
                }
                // the attached comment trails the declaration on its line (a comment above the
                // first declaration of a group belongs to the space before the group)
                let tail = e.comment.as_ref().map(|c| format!(" // {c}")).unwrap_or_default();
                match kind {
                    Kind::UseItems => s.push_str(&format!("use m::{};{tail}\n", e.name)),
                    Kind::Mods => s.push_str(&format!("mod {};{tail}\n", e.name)),
                    Kind::ExternCrates => s.push_str(&format!("extern crate {};{tail}\n", e.name)),
                    Kind::UseList => unreachable!(),
                }
            }
        }
    }
    s
}

fn permutations(n: usize, limit: usize, c: &mut Choices<'_>) -> Vec<Vec<usize>> {
    // all permutations when n! <= limit, else `limit` pseudo-random ones (always incl. identity
    // and reverse)
    fn heap(k: usize, a: &mut Vec<usize>, out: &mut Vec<Vec<usize>>) {
        if k <= 1 {
            out.push(a.clone());
            return;
        }
        for i in 0..k {
            heap(k - 1, a, out);
            if k % 2 == 0 {
                a.swap(i, k - 1);
            } else {
                a.swap(0, k - 1);
            }
        }
    }
    let fact: usize = (1..=n).product();
    if fact <= limit {
        let mut out = vec![];
        heap(n, &mut (0..n).collect(), &mut out);
        return out;
    }
    let mut out = vec![(0..n).collect::<Vec<_>>(), (0..n).rev().collect()];
    while out.len() < limit {
        let mut p: Vec<usize> = (0..n).collect();
        for i in (1..n).rev() {
            let j = c.below(i + 1);
            p.swap(i, j);
        }
        out.push(p);
    }
    out
}

fn names_in_output(kind: Kind, out: &str) -> Vec<String> {
    // the names in the order they appear in the formatted text
    let mut v = vec![];
    match kind {
        Kind::UseList => {
            if let (Some(a), Some(b)) = (out.find('{'), out.rfind('}')) {
                for part in out[a + 1..b].split(',') {
                    let p = part.trim();
                    if !p.is_empty() {
                        v.push(p.to_owned());
                    }
                }
            } else if let Some(rest) = out.trim().strip_prefix("use m::") {
                v.push(rest.trim_end_matches(';').to_owned());
            }
        }
        _ => {
            for l in out.lines() {
                let l = l.trim();
                let rest = match kind {
                    Kind::UseItems => l.strip_prefix("use m::"),
                    Kind::Mods => l.strip_prefix("mod "),
                    Kind::ExternCrates => l.strip_prefix("extern crate "),
                    Kind::UseList => None,
                };
                if let Some(r) = rest {
                    let r = r.split("//").next().unwrap_or(r).trim();
                    v.push(r.trim_end_matches(';').to_owned());
                }
            }
        }
    }
    v
}

fn base_opts(se: &str) -> Opts {
    vec![("style_edition".into(), se.into()), ("edition".into(), "2018".into())]
}

/// consistency of a comparison function over a universe: totality, antisymmetry, transitivity
fn check_order_laws(names: &[String], cmp: &dyn Fn(usize, usize) -> Ordering) -> Result<usize, String> {
    let n = names.len();
    let mut m = vec![vec![Ordering::Equal; n]; n];
    for i in 0..n {
        for j in 0..n {
            m[i][j] = cmp(i, j);
        }
    }
    let mut checked = 0;
    for i in 0..n {
        if m[i][i] != Ordering::Equal {
            return Err(format!("not reflexive: {:?}", names[i]));
        }
        for j in 0..n {
            if m[i][j] != m[j][i].reverse() {
                return Err(format!("not antisymmetric: cmp({:?},{:?})={:?} but cmp({:?},{:?})={:?}", names[i], names[j], m[i][j], names[j], names[i], m[j][i]));
            }
        }
    }
    for i in 0..n {
        for j in 0..n {
            if m[i][j] == Ordering::Greater {
                continue;
            }
            for k in 0..n {
                checked += 1;
                // i <= j and j <= k  =>  i <= k ; and equalities compose
                if m[j][k] != Ordering::Greater {
                    if m[i][k] == Ordering::Greater {
                        return Err(format!("not transitive: {:?} <= {:?} <= {:?} but {:?} > {:?}", names[i], names[j], names[k], names[i], names[k]));
                    }
                    if m[i][j] == Ordering::Equal && m[j][k] == Ordering::Equal && m[i][k] != Ordering::Equal {
                        return Err(format!("equivalence not transitive: {:?} ~ {:?} ~ {:?}", names[i], names[j], names[k]));
                    }
                    if (m[i][j] == Ordering::Less || m[j][k] == Ordering::Less) && m[i][k] != Ordering::Less {
                        return Err(format!("strictness lost: {:?} {:?} {:?}", names[i], names[j], names[k]));
                    }
                }
            }
        }
    }
    Ok(checked)
}

fn vsort_universe(max_len: usize) -> Vec<String> {
    let alpha = ["a", "B", "_", "0", "1", "9"];
    let mut all: Vec<String> = vec![String::new()];
    let mut frontier = vec![String::new()];
    for _ in 0..max_len {
        let mut next = vec![];
        for s in &frontier {
            for a in alpha {
                next.push(format!("{s}{a}"));
            }
        }
        all.extend(next.iter().cloned());
        frontier = next;
    }
    // raw identifiers of the same shapes (letters first)
    let raws: Vec<String> = all.iter().filter(|s| s.starts_with('a') || s.starts_with('B')).take(40).map(|s| format!("r#{s}")).collect();
    all.extend(raws);
    all
}

impl Property for C11 {
    fn id(&self) -> &'static str {
        "C11"
    }
    fn needs_corpus(&self) -> bool {
        false
    }
    fn params(&self, tier: Tier) -> Params {
        Params {
            cases: match tier {
                Tier::Quick => 4_000,
                Tier::Thorough => 30_000,
            },
            max_bytes: 256,
            timeout: Duration::from_secs(300),
        }
    }
    fn rule(&self) -> &'static str {
        "generated groups of 2..6 reorderable declarations (use items, names of one use list, mod declarations, extern crates; identifiers with both cases, leading zeros, underscores, raw identifiers; optional attributes and attached comments; for the names of one use list an optional attribute or doc comment on the import), x style edition 2015/2024; oracle: every permutation (all up to 120, 200 sampled beyond) formats to the same text, the names/attributes/comments of the output are exactly the input's, nothing crosses a blank line / #[macro_use] / skipped item (rustfmt::skip written directly or through cfg_attr, also with the old name) / item of another kind; enumerated: the pairwise order observed by formatting two-element groups over an 80-name universe is a consistent total preorder (reflexive, antisymmetric, transitive over all triples) for both orderings, and version_sort itself (hook) over all strings of length <=3 (thorough <=4) over {a,B,_,0,1,9} plus raw identifiers; non-trivial = at least 3 distinct elements and a permutation whose order differs from the sorted one"
    }
    fn assumptions(&self) -> Vec<&'static str> {
        vec!["groups never contain two imports that differ only in their alias (those are ranked equal by design and keep their relative order: checked separately by the alias-stability cases)"]
    }
    fn enumeration_exhaustive(&self) -> bool {
        true
    }
    fn enum_len(&self, _g: &GenCtx) -> usize {
        // 0: version_sort laws; 1..=8: observed order laws for 4 kinds x 2 editions
        9
    }
    fn enum_case(&self, g: &GenCtx, i: usize) -> Option<Value> {
        if i == 0 {
            return Some(json!({"kind": "vsort-laws", "max_len": if g.tier == Tier::Quick { 3 } else { 4 }}));
        }
        let k = [Kind::UseItems, Kind::UseList, Kind::Mods, Kind::ExternCrates][(i - 1) / 2];
        let se = ["2015", "2024"][(i - 1) % 2];
        Some(json!({"kind": "observed-laws", "decl": k.name(), "style_edition": se}))
    }
    fn generate(&self, c: &mut Choices<'_>, _g: &GenCtx) -> Value {
        let kind = [Kind::UseItems, Kind::UseList, Kind::Mods, Kind::ExternCrates][c.below(4)];
        let se = ["2015", "2024", "2021", "2018"][c.below(4)];
        let which = c.weighted(&[6, 3, 1]);
        let n = 2 + c.weighted(&[2, 3, 3, 2, 1]);
        let mut names: Vec<String> = vec![];
        while names.len() < n {
            // monotone pick: an exhausted choice sequence walks through the pool in order
            let start = c.below(NAMES.len());
            let cand = (0..NAMES.len()).map(|d| NAMES[(start + d) % NAMES.len()]).find(|x| !names.iter().any(|y| y.trim_start_matches("r#") == x.trim_start_matches("r#"))).unwrap_or("a");
            names.push(cand.to_string());
        }
        let list_attr_at = if kind == Kind::UseList && c.chance(1, 3) { Some(c.below(n)) } else { None };
        let mut elems: Vec<Value> = vec![];
        for (i, nm) in names.iter().enumerate() {
            if list_attr_at == Some(i) {
                let a = ["cfg(test)", "allow(unused)", "/// documented import", "cfg(feature = \"x\")"][c.below(4)];
                elems.push(json!({"name": nm, "attr": a, "comment": null}));
                continue;
            }
            let attr = if kind != Kind::UseList && c.chance(1, 5) { Some(["cfg(test)", "allow(unused)", "cfg(feature = \"x\")"][c.below(3)]) } else { None };
            let comment = if kind != Kind::UseList && c.chance(1, 5) { Some(format!("note{i}")) } else { None };
            elems.push(json!({"name": nm, "attr": attr, "comment": comment}));
        }
        match which {
            0 => json!({"kind": "perm", "decl": kind.name(), "style_edition": se, "elems": elems}),
            1 => {
                let boundary = ["blank", "macro_use", "skip", "other-kind", "skip-cfg_attr", "skip-cfg_attr-old"][c.below(6)];
                let split = 1 + c.below(elems.len().max(2) - 1);
                json!({"kind": "boundary", "decl": kind.name(), "style_edition": se, "elems": elems, "boundary": boundary, "split": split})
            }
            _ => {
                // alias stability: imports that differ only in alias keep their relative order
                // (an alias equal to the imported name is redundant and dropped: not generated)
                let aliases: Vec<String> = (0..(2 + c.below(3))).map(|i| format!("{}{}_al", ["Z", "a", "M", "b0", "B"][c.below(5)], i)).collect();
                if c.flip() {
                    // a large group (sorting algorithms switch strategy above 20 elements) in
                    // which several imports differ only in their alias
                    let total = 21 + c.below(30);
                    let n_paths = 2 + c.below(3);
                    let mut lines: Vec<(String, Option<String>)> = vec![];
                    for p in 0..n_paths {
                        for i in 0..(2 + c.below(4)) {
                            lines.push((format!("shared{p}"), Some(format!("{}{}_{}", ["Z", "a", "M", "b0", "B", "k"][c.below(6)], p, i))));
                        }
                    }
                    let mut k = 0;
                    while lines.len() < total {
                        lines.push((format!("{}{k}", ["filler", "Item", "x_", "Z", "a"][c.below(5)]), None));
                        k += 1;
                    }
                    // shuffle (Fisher-Yates driven by the choice sequence)
                    for i in (1..lines.len()).rev() {
                        let j = c.below(i + 1);
                        lines.swap(i, j);
                    }
                    let lines: Vec<Value> = lines.into_iter().map(|(p, a)| json!([p, a])).collect();
                    return json!({"kind": "alias-large", "style_edition": se, "nested": c.flip(), "lines": lines});
                }
                json!({"kind": "alias", "style_edition": se, "path": names[0], "aliases": aliases})
            }
        }
    }
    fn run(&self, case: &Value, _r: &RunCtx) -> Outcome {
        let se = case["style_edition"].as_str().unwrap_or("2015").to_owned();
        let opts = base_opts(&se);
        let kind = Kind::from(case["decl"].as_str().unwrap_or(""));
        let mut o = Outcome::pass();
        o.labels.push(format!("style_edition:{se}"));
        let elems: Vec<Elem> = case["elems"]
            .as_array()
            .map(|a| {
                a.iter()
                    .map(|e| Elem {
                        name: e["name"].as_str().unwrap_or("x").to_owned(),
                        attr: e["attr"].as_str().map(|s| s.to_owned()),
                        comment: e["comment"].as_str().map(|s| s.to_owned()),
                    })
                    .collect()
            })
            .unwrap_or_default();
        match case["kind"].as_str().unwrap_or("") {
            "vsort-laws" => {
                let max_len = case["max_len"].as_u64().unwrap_or(3) as usize;
                let uni = vsort_universe(max_len);
                let cmp = |i: usize, j: usize| rustfmt_nightly::verif_hooks::version_sort(&uni[i], &uni[j]);
                // for length 4 the triple check is cubic in 1.6k names: keep it to a stride sample
                let res = if uni.len() <= 400 {
                    check_order_laws(&uni, &cmp)
                } else {
                    // all pairs (antisymmetry) on the full universe, all triples on every 4th name
                    for i in 0..uni.len() {
                        for j in 0..uni.len() {
                            if cmp(i, j) != cmp(j, i).reverse() {
                                return Outcome::fail("vsort:antisymmetry", format!("{:?} vs {:?}", uni[i], uni[j])).nontrivial(true);
                            }
                        }
                    }
                    let sub: Vec<String> = uni.iter().step_by(4).cloned().collect();
                    let cmp2 = |i: usize, j: usize| rustfmt_nightly::verif_hooks::version_sort(&sub[i], &sub[j]);
                    check_order_laws(&sub, &cmp2)
                };
                match res {
                    Ok(n) => {
                        o.nontrivial = true;
                        o.labels.push(format!("vsort-universe:{}-names:{}-triples", uni.len(), n));
                        // sorting by it must not depend on the algorithm: two different sorts agree
                        let mut a = uni.clone();
                        let mut b = uni.clone();
                        b.reverse();
                        a.sort_by(|x, y| rustfmt_nightly::verif_hooks::version_sort(x, y));
                        b.sort_by(|x, y| rustfmt_nightly::verif_hooks::version_sort(x, y));
                        let eq = a.iter().zip(b.iter()).all(|(x, y)| rustfmt_nightly::verif_hooks::version_sort(x, y) == Ordering::Equal);
                        if !eq {
                            return Outcome::fail("vsort:sort-depends-on-input-order", "sorting the universe and its reverse gives different orders".to_string()).nontrivial(true);
                        }
                    }
                    Err(e) => return Outcome::fail("vsort:laws", e).nontrivial(true),
                }
            }
            "observed-laws" => {
                // observe the order of every pair through formatting two-element groups
                let uni: Vec<String> = NAMES
                    .iter()
                    .filter(|n| !(kind == Kind::ExternCrates && n.starts_with("r#") && false))
                    .map(|s| s.to_string())
                    .collect();
                let n = uni.len();
                let mut first_of = vec![vec![0usize; n]; n]; // which of (i,j) comes first when given as i,j
                for i in 0..n {
                    for j in 0..n {
                        if i == j {
                            continue;
                        }
                        let src = render_group(kind, &[Elem { name: uni[i].clone(), attr: None, comment: None }, Elem { name: uni[j].clone(), attr: None, comment: None }]);
                        let r = format_text(&src, &opts);
                        if !r.clean() {
                            return Outcome::skip("pair-does-not-format");
                        }
                        let names = names_in_output(kind, &r.text);
                        if names.len() != 2 || !names.contains(&uni[i]) || !names.contains(&uni[j]) {
                            return Outcome::fail(format!("observed:elements-changed:{}", kind.name()), format!("{src:?} -> {:?}", r.text)).nontrivial(true);
                        }
                        first_of[i][j] = if names[0] == uni[i] { i } else { j };
                    }
                }
                // determinism w.r.t. input order: the same element comes first both ways
                let cmp = |i: usize, j: usize| -> Ordering {
                    if i == j {
                        return Ordering::Equal;
                    }
                    let a = first_of[i][j];
                    let b = first_of[j][i];
                    if a == b {
                        if a == i {
                            Ordering::Less
                        } else {
                            Ordering::Greater
                        }
                    } else {
                        // order-preserving in both directions: the pair is ranked equal
                        Ordering::Equal
                    }
                };
                for i in 0..n {
                    for j in (i + 1)..n {
                        if first_of[i][j] != first_of[j][i] && first_of[i][j] != i {
                            // given (i,j) -> j first, given (j,i) -> i first: the order flips with the input
                            return Outcome::fail(format!("observed:order-depends-on-input:{}", kind.name()), format!("{:?} and {:?} are emitted in the opposite of the input order both ways", uni[i], uni[j])).nontrivial(true);
                        }
                    }
                }
                match check_order_laws(&uni, &cmp) {
                    Ok(t) => {
                        o.nontrivial = true;
                        o.labels.push(format!("observed-order:{}:{}-names:{}-triples", kind.name(), n, t));
                        let ties = (0..n).flat_map(|i| (0..n).map(move |j| (i, j))).filter(|(i, j)| i < j && cmp(*i, *j) == Ordering::Equal).count();
                        o.labels.push(format!("ranked-equal-pairs:{ties}"));
                    }
                    Err(e) => return Outcome::fail(format!("observed:laws:{}", kind.name()), e).nontrivial(true),
                }
            }
            "perm" => {
                let mut ch_bytes = crate::gen::grid::byte_stream(&format!("{case}"), 2048);
                ch_bytes.push(0);
                let mut c = Choices::new(&ch_bytes);
                let perms = permutations(elems.len(), if elems.len() <= 5 { 120 } else { 200 }, &mut c);
                let mut reference: Option<(String, Vec<usize>)> = None;
                let mut differs = false;
                let judge_known = case["judge_known"].as_bool().unwrap_or(false);
                for p in &perms {
                    let g: Vec<Elem> = p.iter().map(|i| elems[*i].clone()).collect();
                    // known class: the trailing comment of the last declaration of a group is
                    // treated as a comment after the group and stays at the end when the
                    // declaration moves
                    let last_has_comment = kind != Kind::UseList && g.last().map(|e| e.comment.is_some()).unwrap_or(false);
                    if last_has_comment && !judge_known {
                        if !o.excluded.iter().any(|x| x.starts_with("known-class:last-trailing-comment")) {
                            o.excluded.push("known-class:last-trailing-comment-detached".into());
                        }
                        continue;
                    }
                    let src = render_group(kind, &g);
                    let r = format_text(&src, &opts);
                    if !r.clean() {
                        return Outcome::skip("group-does-not-format");
                    }
                    // (b) exactly the input's elements with their attributes and comments
                    let names = names_in_output(kind, &r.text);
                    let mut want: Vec<String> = elems.iter().map(|e| e.name.clone()).collect();
                    let mut got = names.clone();
                    want.sort();
                    got.sort();
                    if want != got {
                        return Outcome::fail(format!("perm:elements:{}", kind.name()), format!("{src:?} -> {:?}", r.text)).nontrivial(true);
                    }
                    if kind != Kind::UseList {
                        // each element's comment and attribute stand directly above it, in that order
                        let lines: Vec<&str> = r.text.lines().collect();
                        for e in &elems {
                            let decl = match kind {
                                Kind::UseItems => format!("use m::{};", e.name),
                                Kind::Mods => format!("mod {};", e.name),
                                _ => format!("extern crate {};", e.name),
                            };
                            let full = match &e.comment {
                                Some(cm) => format!("{decl} // {cm}"),
                                None => decl.clone(),
                            };
                            let Some(pos) = lines.iter().position(|l| l.trim() == full) else {
                                let class = if lines.iter().any(|l| l.trim().starts_with(&decl)) { "perm:comment-detached" } else { "perm:elements" };
                                if last_has_comment && class == "perm:comment-detached" {
                                    return Outcome::fail("perm:last-trailing-comment-detached", format!("`{full}` missing: {src:?} -> {:?}", r.text)).nontrivial(true);
                                }
                                return Outcome::fail(format!("{class}:{}", kind.name()), format!("`{full}` missing: {src:?} -> {:?}", r.text)).nontrivial(true);
                            };
                            if let Some(a) = &e.attr {
                                if pos == 0 || lines[pos - 1].trim() != format!("#[{a}]") {
                                    return Outcome::fail(format!("perm:attribute-detached:{}", kind.name()), format!("{src:?} -> {:?}", r.text)).nontrivial(true);
                                }
                            }
                        }
                    }
                    if names != g.iter().map(|e| e.name.clone()).collect::<Vec<_>>() {
                        differs = true;
                    }
                    // (a) every permutation formats to the same text
                    match &reference {
                        None => reference = Some((r.text.clone(), p.clone())),
                        Some((t, p0)) => {
                            if *t != r.text {
                                return Outcome::fail(
                                    format!("perm:order-dependent:{}", kind.name()),
                                    format!("permutations {p0:?} and {p:?} of {:?} format differently:\n{t}\n---\n{}", elems.iter().map(|e| &e.name).collect::<Vec<_>>(), r.text),
                                )
                                .nontrivial(true);
                            }
                        }
                    }
                }
                o.nontrivial = differs && elems.len() >= 3;
                o.labels.push(format!("perm:{}:{}", kind.name(), elems.len()));
                if elems.iter().any(|e| e.attr.is_some()) {
                    o.labels.push("with-attribute".into());
                }
                if elems.iter().any(|e| e.comment.is_some()) {
                    o.labels.push("with-comment".into());
                }
            }
            "boundary" => {
                let split = (case["split"].as_u64().unwrap_or(1) as usize).min(elems.len().saturating_sub(1)).max(1);
                let boundary = case["boundary"].as_str().unwrap_or("blank");
                if kind == Kind::UseList {
                    return Outcome::skip("no-boundaries-inside-a-list");
                }
                let a = render_group(kind, &elems[..split]);
                let b = render_group(kind, &elems[split..]);
                let (mid, marker): (String, &str) = match boundary {
                    "blank" => ("\n".into(), ""),
                    "macro_use" => match kind {
                        Kind::Mods => ("#[macro_use]\nmod zzboundary;\n".into(), "zzboundary"),
                        _ => ("#[macro_use]\nextern crate zzboundary;\n".into(), "zzboundary"),
                    },
                    sk if sk.starts_with("skip") => {
                        let attr = match sk {
                            "skip-cfg_attr" => "#[cfg_attr(rustfmt, rustfmt::skip)]",
                            "skip-cfg_attr-old" => "#[cfg_attr(rustfmt, rustfmt_skip)]",
                            _ => "#[rustfmt::skip]",
                        };
                        match kind {
                            Kind::UseItems => (format!("{attr}\nuse m::zzboundary;\n"), "zzboundary"),
                            Kind::Mods => (format!("{attr}\nmod zzboundary;\n"), "zzboundary"),
                            _ => (format!("{attr}\nextern crate zzboundary;\n"), "zzboundary"),
                        }
                    }
                    _ => ("fn zzboundary() {}\n".into(), "zzboundary"),
                };
                let src = format!("{a}{mid}{b}");
                let r = format_text(&src, &opts);
                if !r.clean() {
                    return Outcome::skip("group-does-not-format");
                }
                let pos_of = |name: &str| -> Option<usize> {
                    let decl = match kind {
                        Kind::UseItems => format!("use m::{name};"),
                        Kind::Mods => format!("mod {name};"),
                        _ => format!("extern crate {name};"),
                    };
                    r.text.lines().position(|l| l.trim() == decl || l.trim().starts_with(&format!("{decl} //")))
                };
                let bpos = if marker.is_empty() {
                    r.text.lines().position(|l| l.trim().is_empty())
                } else {
                    r.text.lines().position(|l| l.contains(marker))
                };
                let Some(bpos) = bpos else {
                    return Outcome::fail(format!("boundary:lost:{boundary}"), format!("{src:?} -> {:?}", r.text)).nontrivial(true);
                };
                for (i, e) in elems.iter().enumerate() {
                    let Some(p) = pos_of(&e.name) else {
                        return Outcome::fail(format!("boundary:elements:{}", kind.name()), format!("{} missing: {src:?} -> {:?}", e.name, r.text)).nontrivial(true);
                    };
                    if (i < split) != (p < bpos) {
                        return Outcome::fail(
                            format!("boundary:crossed:{boundary}:{}", kind.name()),
                            format!("`{}` moved across the {boundary} boundary:\n{src}\n--->\n{}", e.name, r.text),
                        )
                        .nontrivial(true);
                    }
                }
                o.nontrivial = r.text != src;
                o.labels.push(format!("boundary:{boundary}:{}", kind.name()));
            }
            "alias" => {
                let path = case["path"].as_str().unwrap_or("a");
                let aliases: Vec<String> = case["aliases"].as_array().map(|a| a.iter().filter_map(|x| x.as_str().map(|s| s.to_owned())).collect()).unwrap_or_default();
                let src: String = aliases.iter().map(|al| format!("use m::{path} as {al};\n")).collect();
                let r = format_text(&src, &opts);
                if !r.clean() {
                    return Outcome::skip("group-does-not-format");
                }
                let got: Vec<String> = r.text.lines().filter_map(|l| l.trim().strip_prefix(&format!("use m::{path} as ")).map(|s| s.trim_end_matches(';').to_owned())).collect();
                if got != aliases {
                    return Outcome::fail("alias:relative-order-changed", format!("{src}--->\n{}", r.text)).nontrivial(true);
                }
                o.nontrivial = aliases.len() >= 2;
                o.labels.push("alias-stability".into());
            }
            "alias-large" => {
                let lines: Vec<(String, Option<String>)> = case["lines"].as_array().map(|a| a.iter().map(|p| (p[0].as_str().unwrap_or("x").to_owned(), p[1].as_str().map(|s| s.to_owned()))).collect()).unwrap_or_default();
                let nested = case["nested"].as_bool().unwrap_or(false);
                let elem = |(p, a): &(String, Option<String>)| match a {
                    Some(a) => format!("{p} as {a}"),
                    None => p.clone(),
                };
                let src: String = if nested {
                    format!("use m::{{{}}};\n", lines.iter().map(elem).collect::<Vec<_>>().join(", "))
                } else {
                    lines.iter().map(|l| format!("use m::{};\n", elem(l))).collect()
                };
                let r = format_text(&src, &opts);
                if !r.clean() {
                    return Outcome::skip("group-does-not-format");
                }
                // the aliases of each shared path, in output order
                let toks: Vec<String> = crate::lex::significant(&r.text).iter().map(|t| t.text(&r.text).to_owned()).collect();
                let mut paths: Vec<String> = lines.iter().filter(|l| l.1.is_some()).map(|l| l.0.clone()).collect();
                paths.sort();
                paths.dedup();
                for p in &paths {
                    let want: Vec<String> = lines.iter().filter(|l| &l.0 == p).filter_map(|l| l.1.clone()).collect();
                    let mut got: Vec<String> = vec![];
                    for i in 0..toks.len().saturating_sub(2) {
                        if &toks[i] == p && toks[i + 1] == "as" {
                            got.push(toks[i + 2].clone());
                        }
                    }
                    if got != want {
                        return Outcome::fail("alias:relative-order-changed/large-group", format!("imports of `{p}` that differ only in their alias: input order {want:?}, output order {got:?} ({} elements, nested list: {nested})\n{src}--->\n{}", lines.len(), r.text)).nontrivial(true);
                    }
                }
                // nothing lost
                for l in &lines {
                    if l.1.is_none() && !toks.iter().any(|t| t == &l.0) {
                        return Outcome::fail("alias:element-lost/large-group", format!("`{}` is missing\n{src}--->\n{}", l.0, r.text)).nontrivial(true);
                    }
                }
                o.nontrivial = true;
                o.labels.push(format!("alias-stability-large:{}", if nested { "nested-list" } else { "items" }));
            }
            _ => return Outcome::skip("unknown-kind"),
        }
        o
    }
}
