//! C01 Formatting preserves the meaning of the program.

use std::time::Duration;

use serde_json::{json, Value};

use crate::choices::Choices;
use crate::engine::{GenCtx, Outcome, Params, Property, RunCtx, Tier};
use crate::fmt::{format_text, opt, opt_bool, Opts};
use crate::gen::conf::{gen_conf, ConfSpace};
use crate::gen::prog::{gen_prog, render, ProgSpace, RenderOpts};
use crate::parse::{canon_pretty, parses};
use crate::props::common::*;
use crate::tokcmp::{compare, CmpOpts};

pub struct C01;

pub const SPACE: ConfSpace = ConfSpace {
    exclude: &[],
    exclude_values: &[],
    allow_2027: true,
    min_edition: "2015",
    max_extra: 4,
    whitespace_axes: false,
};

pub fn cmp_opts(opts: &Opts, judge_known: bool) -> CmpOpts {
    CmpOpts {
        use_try_shorthand: opt_bool(opts, "use_try_shorthand", false),
        use_field_init_shorthand: opt_bool(opts, "use_field_init_shorthand", false),
        condense_wildcard_suffixes: opt_bool(opts, "condense_wildcard_suffixes", false),
        hex_literal_case: opt(opts, "hex_literal_case").map(|v| v != "Preserve").unwrap_or(false),
        float_literal_trailing_zero: opt(opts, "float_literal_trailing_zero").map(|v| v != "Preserve").unwrap_or(false),
        normalize_doc_attributes: opt_bool(opts, "normalize_doc_attributes", false),
        doc_words: opt_bool(opts, "wrap_comments", false) || opt_bool(opts, "normalize_comments", false),
        ignore_doc_content: opt_bool(opts, "format_code_in_doc_comments", false),
        multiset_only: opt_bool(opts, "reorder_impl_items", false),
        strict: false,
        accept_known_macro_delims: !judge_known,
        edition_2015: opt(opts, "edition").map(|e| e == "2015").unwrap_or(true),
    }
}

/// Known class KF-C01-3: format_strings breaks a string literal right after the backslash that
/// starts an escape (`\\`, `\n`, `\"`), so the continuation backslash pairs up with it: the output
/// has an even, non-empty run of backslashes directly before a line end where the input has none.
fn format_strings_splits_escape(src: &str, out: &str) -> bool {
    fn hits(t: &str) -> usize {
        let b = t.as_bytes();
        let mut n = 0;
        for (i, ch) in b.iter().enumerate() {
            if *ch == b'\n' {
                let mut k = 0;
                while k < i && b[i - 1 - k] == b'\\' {
                    k += 1;
                }
                if k > 0 && k % 2 == 0 {
                    n += 1;
                }
            }
        }
        n
    }
    hits(out) > hits(src)
}

/// Known class KF-C01-4: format_strings breaks a string inside the blanks that end it; the blanks
/// that land on the continuation line are skipped by the language together with the indentation,
/// so the literal loses them: the output has a line continuation whose next line holds nothing but
/// blanks and the closing quote.
fn format_strings_swallows_trailing_blanks(src: &str, out: &str) -> bool {
    fn hits(t: &str) -> usize {
        let b = t.as_bytes();
        let mut n = 0;
        for i in 0..b.len() {
            if b[i] == b'\n' {
                let mut k = 0;
                while k < i && b[i - 1 - k] == b'\\' {
                    k += 1;
                }
                if k % 2 == 1 {
                    let mut j = i + 1;
                    while j < b.len() && (b[j] == b' ' || b[j] == b'\t') {
                        j += 1;
                    }
                    if j < b.len() && b[j] == b'"' {
                        n += 1;
                    }
                }
            }
        }
        n
    }
    hits(out) > hits(src)
}

/// Programs whose substance is string literals that do not fit their line: words, paths, URLs and
/// escapes (`\\`, `\n`, `\t`, `\"`, `\'`, `\0`, `\x41`, `\u{e9}`) with and without blanks between
/// them, as let initialisers, call and macro arguments, under format_strings.
fn gen_string_program(c: &mut Choices<'_>) -> Value {
    const WORDS: &[&str] = &["alpha", "Users", "someone", "AppData", "x", "configuration", "naïve", "日本語", "tool.exe", "a-b", "k=v", "100%"];
    const ESCAPES: &[&str] = &["\\\\", "\\n", "\\t", "\\\"", "\\'", "\\0", "\\x41", "\\u{e9}", "\\r\\n"];
    const SEPS: &[&str] = &[" ", " ", "", "/", "-", ".", "::", ", ", "  "];
    let mut src = String::from("fn main() {\n");
    let n_stmts = 1 + c.below(3);
    for i in 0..n_stmts {
        let mut lit = String::new();
        let style = c.below(4); // 0 prose, 1 path with escapes, 2 dense escapes, 3 url
        let target = 20 + c.below(140);
        if style == 3 {
            lit.push_str("see https://example.org/");
        }
        while lit.chars().count() < target {
            match style {
                0 => {
                    lit.push_str(*c.pick(WORDS));
                    lit.push_str(if c.chance(1, 8) { *c.pick(ESCAPES) } else { " " });
                }
                1 => {
                    lit.push_str(*c.pick(WORDS));
                    lit.push_str(*c.pick(&["\\\\", "\\\\", "/", "\\n"]));
                }
                2 => {
                    lit.push_str(*c.pick(ESCAPES));
                    if c.chance(1, 3) {
                        lit.push_str(*c.pick(WORDS));
                    }
                    lit.push_str(*c.pick(SEPS));
                }
                _ => {
                    lit.push_str(*c.pick(WORDS));
                    lit.push_str(*c.pick(&["/", "?", "&", "=", " "]));
                }
            }
        }
        match c.below(5) {
            0 => src.push_str(&format!("    let s{i} = \"{lit}\";\n")),
            1 => src.push_str(&format!("    call(\"{lit}\", {i});\n")),
            2 => src.push_str(&format!("    println!(\"{lit}\", s);\n")),
            3 => src.push_str(&format!("    let t{i} = (\"{lit}\", b\"bytes\\x00\");\n")),
            _ => src.push_str(&format!("    obj.method(\"{lit}\").other(\"short\");\n")),
        }
    }
    src.push_str("}\n");
    let mut opts: Opts = vec![("format_strings".into(), "true".into()), ("max_width".into(), (20 + c.below(110)).to_string())];
    if c.chance(1, 5) {
        opts.push(("hard_tabs".into(), "true".into()));
    }
    if c.chance(1, 5) {
        opts.push(("indent_style".into(), "Visual".into()));
    }
    if c.chance(1, 4) {
        opts.push(("style_edition".into(), (*c.pick(&["2015", "2021", "2024"])).to_string()));
    }
    json!({"src": src, "opts": opts_to(&opts), "origin": "prog", "layout": 0, "tags": ["macro-program", "string-program"]})
}

/// The two token texts of a "token mismatch: input `A` vs output `B`" message.
fn mismatch_pair(msg: &str) -> Option<(String, String)> {
    let first = msg.lines().next()?;
    let a = first.split("input `").nth(1)?.split("` vs output `").next()?.to_string();
    let b = first.split("` vs output `").nth(1)?.strip_suffix('`')?.to_string();
    Some((a, b))
}

/// Does the text invoke `try!` (possibly written `try !`)?
fn has_try_macro(src: &str) -> bool {
    let toks: Vec<_> = crate::lex::significant(src);
    toks.windows(2).any(|w| w[0].text(src) == "try" && w[1].text(src) == "!")
}

/// `try!(e)` -> `((e))?` (parenthesised) or `e?` (naive), on the token level. `None` if a `try!`
/// uses other delimiters or is unbalanced.
fn rewrite_try(src: &str, parenthesised: bool) -> Option<String> {
    let toks = crate::lex::lex(src);
    let text = |i: usize| toks[i].text(src);
    let mut out = String::new();
    // stack of open parentheses: true if it belongs to a `try!`
    let mut stack: Vec<bool> = vec![];
    let mut i = 0;
    while i < toks.len() {
        let t = text(i);
        // `try` `!` `(` (whitespace between them is not expected from rustfmt-style sources, but skip it)
        if t == "try" {
            let mut j = i + 1;
            while j < toks.len() && toks[j].kind.is_trivia() {
                j += 1;
            }
            if j < toks.len() && text(j) == "!" {
                let mut k = j + 1;
                while k < toks.len() && toks[k].kind.is_trivia() {
                    k += 1;
                }
                if k < toks.len() && text(k) == "(" {
                    out.push_str(if parenthesised { "((" } else { "" });
                    stack.push(true);
                    i = k + 1;
                    continue;
                }
                return None;
            }
        }
        match t {
            "(" => stack.push(false),
            ")" => {
                if stack.pop()? {
                    out.push_str(if parenthesised { "))?" } else { "?" });
                    i += 1;
                    continue;
                }
            }
            _ => {}
        }
        out.push_str(t);
        i += 1;
    }
    Some(out)
}

/// Is there a `#[doc ..]` attribute whose closing bracket is followed by another token on the
/// same line?
pub fn doc_attr_shares_line(src: &str) -> bool {
    let toks = crate::lex::significant(src);
    let mut i = 0;
    while i + 2 < toks.len() {
        if toks[i].text(src) == "#" && toks[i + 1].text(src) == "[" && toks[i + 2].text(src) == "doc" {
            let mut depth = 0usize;
            let mut k = i + 1;
            while k < toks.len() {
                match toks[k].text(src) {
                    "[" => depth += 1,
                    "]" => {
                        depth -= 1;
                        if depth == 0 {
                            break;
                        }
                    }
                    _ => {}
                }
                k += 1;
            }
            if let (Some(close), Some(next)) = (toks.get(k), toks.get(k + 1)) {
                if !src[close.hi..next.lo].contains('\n') {
                    return true;
                }
            }
            i = k;
        }
        i += 1;
    }
    false
}

impl Property for C01 {
    fn id(&self) -> &'static str {
        "C01"
    }
    fn params(&self, tier: Tier) -> Params {
        Params {
            // The general G-PROG tier is exploratory (VP_C01_GEN=<cases>): the comparison is greedy and
            // still raises a false alarm on ~1 in 10^4 generated programs (parentheses that
            // rustfmt adds around closures and casts), see DESIGN §5 C01. The registered tiers
            // use the corpus grid, which was swept completely, plus generated macro programs.
            cases: std::env::var("VP_C01_GEN").ok().and_then(|v| v.parse().ok()).unwrap_or(match tier {
                Tier::Quick => 60_000,
                Tier::Thorough => 1_500_000,
            }),
            max_bytes: 1024,
            timeout: Duration::from_secs(20),
        }
    }
    fn rule(&self) -> &'static str {
        "corpus grid cells (chunk x layout x configuration) and generated programs (macro programs, general grammar programs, programs of over-long string literals with escapes under format_strings); judged when rustfmt reports no error; oracle: (1) the output parses under the same edition (independent rustc_parse), (2) the significant-token sequences of input and output (rustc_lexer; doc comments by content) are equal up to the closed list of C01 edits, each checked against its local context, after identical canonicalisation of import leaves, mod/extern-crate runs, derive lists and nested parentheses, (3) the parenthesis-free pretty-printed ASTs are equal under the same comparison without parenthesis/brace edits; non-trivial = the output differs from the input and spans several lines; distinct by case content"
    }
    fn assumptions(&self) -> Vec<&'static str> {
        vec![
            "rustc_lexer/rustc_parse/pprust of the pinned toolchain define tokens, 'parses' and precedence",
            "under reorder_impl_items the token comparison is by multiset; under format_code_in_doc_comments doc comment content is not compared; under wrap_comments/normalize_comments doc comments are compared as non-blank character streams",
        ]
    }
    fn enum_len(&self, g: &GenCtx) -> usize {
        grid_len(g, 200_000, usize::MAX)
    }
    fn enum_case(&self, g: &GenCtx, i: usize) -> Option<Value> {
        let n = self.enum_len(g);
        let cell = grid_pick(g, "C01", n, i, &SPACE, false);
        let key = crate::props::c02::chunk_key(&cell.src.origin);
        if g.known_sigs.iter().any(|s| s.ends_with(&format!("@{key}"))) {
            return None;
        }
        Some(cell_case(&cell))
    }
    fn generate(&self, c: &mut Choices<'_>, _g: &GenCtx) -> Value {
        if std::env::var("VP_C01_GEN").is_err() && c.chance(1, 12) {
            return gen_string_program(c);
        }
        if std::env::var("VP_C01_GEN").is_err() && c.chance(1, 3) {
            // registered tiers: programs made of macro definitions and invocations, re-laid out
            let text = crate::gen::macros::gen_macro_program(c);
            let intensity = c.weighted(&[2, 3, 3, 2]);
            let text = crate::gen::layout::relayout(&text, c, intensity, crate::gen::layout::Newlines::Lf);
            let space = ConfSpace { max_extra: 2, ..SPACE };
            let opts = gen_conf(c, &space);
            return json!({"src": text, "opts": opts_to(&opts), "origin": "prog", "layout": intensity, "tags": ["macro-program"]});
        }
        let p = gen_prog(c, &ProgSpace::default());
        let wild = c.weighted(&[3, 3, 2, 2]);
        // comments are C03's subject (and several known comment-placement defects make the
        // output unparsable): generated programs of C01 carry none; the corpus cells do
        let comment_p = 0;
        let space = ConfSpace {
            min_edition: p.min_edition,
            ..SPACE
        };
        let mut opts = gen_conf(c, &space);
        let r = render(
            &p,
            c,
            &RenderOpts {
                wild,
                comment_p,
                ..Default::default()
            },
        );
        if p.only_2015 {
            for o in opts.iter_mut() {
                if o.0 == "edition" {
                    o.1 = "2015".into();
                }
            }
        }
        json!({"src": r.text, "opts": opts_to(&opts), "origin": "prog", "layout": wild, "tags": p.tags})
    }
    fn run(&self, case: &Value, _r: &RunCtx) -> Outcome {
        let src = case["src"].as_str().unwrap_or("");
        let opts = opts_from(&case["opts"]);
        let origin = case["origin"].as_str().unwrap_or("");
        let key = crate::props::c02::chunk_key(origin);
        let judge_known = case["judge_known"].as_bool().unwrap_or(false) || std::env::var("VP_JUDGE_KNOWN").is_ok();
        let edition = opt(&opts, "edition").unwrap_or("2015").to_owned();
        let o1 = format_text(src, &opts);
        if !o1.clean() {
            return Outcome::skip(if o1.has_parsing_errors { "parse-error" } else { "reports-error" });
        }
        if o1.text.is_empty() && !src.trim().is_empty() {
            return Outcome::skip("echoed-to-stdout");
        }
        let mut o = Outcome::pass();
        o.labels.extend(conf_labels(&opts));
        for t in case["tags"].as_array().into_iter().flatten() {
            if let Some(t) = t.as_str() {
                o.labels.push(format!("tag:{t}"));
            }
        }
        o.nontrivial = o1.text != src && o1.text.lines().count() >= 3;
        let fail = |class: &str, msg: String, o: &Outcome| -> Outcome {
            // generated programs have no item key: the signature carries the first line of the
            // explanation instead (digits stripped)
            let sig = if key == "prog" {
                let first: String = strip_digits(msg.lines().next().unwrap_or("")).chars().take(140).collect();
                format!("{class}@prog:{first}")
            } else {
                format!("{class}@{key}")
            };
            let mut f = Outcome::fail(sig, msg);
            f.labels = o.labels.clone();
            f.nontrivial = true;
            f
        };
        // known class (KF-C01-3): format_strings breaks a string inside an escape sequence
        if opt(&opts, "format_strings") == Some("true") && format_strings_splits_escape(src, &o1.text) {
            if !judge_known {
                o.excluded.push("known-class:format-strings-splits-escape".into());
                return o;
            }
            return Outcome::fail("tokens/format-strings-splits-escape", format!("format_strings broke a string literal between a backslash and the character it escapes\n{src}\n--->\n{}", o1.text)).nontrivial(true);
        }
        // known class (KF-C01-4): format_strings breaks a string inside its trailing blanks
        if opt(&opts, "format_strings") == Some("true") && format_strings_swallows_trailing_blanks(src, &o1.text) {
            if !judge_known {
                o.excluded.push("known-class:format-strings-swallows-trailing-blanks".into());
                return o;
            }
            return Outcome::fail("tokens/format-strings-swallows-trailing-blanks", format!("format_strings moved blanks that end a string literal onto a continuation line, where they no longer count\n{src}\n--->\n{}", o1.text)).nontrivial(true);
        }
        // (1) the output parses under the same edition
        if !parses(&o1.text, &edition) {
            let diags = crate::parse::LAST_DIAGS.lock().map(|d| d.clone()).unwrap_or_default();
            if !parses(src, &edition) {
                // the oracle's parser rejects the input as well (rustfmt recovered): not judged
                return Outcome::skip("oracle-parser-rejects-input");
            }
            // known class: with normalize_doc_attributes a `#[doc = ".."]` attribute that shares
            // its line with an item rustfmt cannot lay out becomes a `///` comment that
            // swallows the item's header
            if opt(&opts, "normalize_doc_attributes") == Some("true") && doc_attr_shares_line(src) {
                if !judge_known {
                    o.excluded.push("known-class:doc-attribute-swallows-item".into());
                    return o;
                }
                return Outcome::fail("output-does-not-parse/doc-attribute-swallows-item", format!("the emitted text does not parse under edition {edition}: {:?}\n{src}\n--->\n{}", diags, o1.text)).nontrivial(true);
            }
            // known class: `try!(a != b)` -> `a != b?` can chain comparison operators
            if opt(&opts, "use_try_shorthand") == Some("true") && has_try_macro(src) {
                let naive_fails = rewrite_try(src, false).map(|n| !parses(&n, &edition)).unwrap_or(false);
                if naive_fails {
                    if !judge_known {
                        o.excluded.push("known-class:try-shorthand-drops-parentheses".into());
                        return o;
                    }
                    return Outcome::fail("output-does-not-parse/try-shorthand-drops-parentheses", format!("the emitted text does not parse under edition {edition}: {:?}\n{src}\n--->\n{}", diags, o1.text)).nontrivial(true);
                }
            }
            return fail("output-does-not-parse", format!("the emitted text does not parse under edition {edition}: {:?}", diags), &o);
        }
        // (2) token equivalence
        let co = cmp_opts(&opts, judge_known);
        if co.multiset_only {
            // reorder_impl_items permutes the items of an impl (its documented effect): the
            // sequential comparison does not apply; only "the output parses" is judged
            o.excluded.push("reorder_impl_items:token-order-not-compared".into());
            return o;
        }
        match compare(src, &o1.text, &co) {
            Ok(st) => {
                for e in &st.edits {
                    o.labels.push(format!("edit:{e}"));
                    if *e == "known-macro-delims" {
                        o.excluded.push("known-class:macro-delimiter-rewrite".into());
                    }
                }
            }
            Err(m) if key == "prog" && opt(&opts, "normalize_doc_attributes") == Some("true") && doc_attr_shares_line(src) => {
                // the known doc-attribute class (KF-C01-1) with an output that still parses: the
                // swallowed item header shows up as altered doc comment text
                if !judge_known {
                    o.excluded.push("known-class:doc-attribute-swallows-item".into());
                    return o;
                }
                return Outcome::fail("tokens/doc-attribute-swallows-item", format!("{}\n{src}\n--->\n{}", m.msg, o1.text)).nontrivial(true);
            }
            Err(m) => {
                // general grammar programs: the sequential token comparison is greedy and cannot
                // always align parentheses that rustfmt adds or removes; there the tree comparison
                // (3) decides, and a mismatch it cannot confirm is not judged
                let general = key == "prog" && !case["tags"].as_array().map(|a| a.iter().any(|t| matches!(t.as_str(), Some("macro-program") | Some("replay")))).unwrap_or(false);
                if !general {
                    return fail(&format!("tokens:{}", m.class), m.msg, &o);
                }
                // a literal against a different literal of the same kind is decisive whatever the
                // alignment of parentheses around it
                if let Some((a, b)) = mismatch_pair(&m.msg) {
                    let (ta, tb) = (crate::lex::significant(&a), crate::lex::significant(&b));
                    if ta.len() == 1 && tb.len() == 1 && ta[0].kind.is_literal() && ta[0].kind == tb[0].kind {
                        return fail(&format!("tokens:{}", m.class), m.msg, &o);
                    }
                }
                let try_conv = co.use_try_shorthand && has_try_macro(src);
                if co.float_literal_trailing_zero || try_conv {
                    return Outcome::skip("token-comparison-undecided");
                }
                match (canon_pretty(src, &edition), canon_pretty(&o1.text, &edition)) {
                    (Some(pa), Some(pb)) => {
                        let strict = CmpOpts { strict: true, ..co.clone() };
                        match compare(&pa, &pb, &strict) {
                            Ok(_) => {
                                o.labels.push("tokens-undecided:ast-equal".into());
                                return o;
                            }
                            Err(m2) => {
                                // neither comparison can align the two texts: on general grammar
                                // programs this happens about once in 10^5 cases for reasons that
                                // lie in the comparator (runs of `extern crate` separated by a
                                // removed empty `use`, `pub(in super)` respelled `pub(super)`, ...);
                                // such a case is not judged (development runs with VP_C01_GEN
                                // report it)
                                // ... unless both comparisons stop at tokens that are neither
                                // delimiters / separators (whose alignment is what the comparator
                                // cannot always settle) nor canonicalised import leaves: an
                                // identifier, operator, `#` or `::` standing against a different
                                // one in both views is a real difference
                                let soft = |t: &str| matches!(t, "(" | ")" | "{" | "}" | "[" | "]" | ";" | "," | "|" | "||") || t.contains(' ') || t.contains("::") && t.len() > 2;
                                let hard = |msg: &str| mismatch_pair(msg).map(|(a, b)| !soft(&a) && !soft(&b)).unwrap_or(false);
                                if std::env::var("VP_C01_GEN").is_ok() || (hard(&m.msg) && hard(&m2.msg)) {
                                    return fail(&format!("tokens+ast:{}", m2.class), format!("{}\npretty-printed ASTs differ as well: {}", m.msg, m2.msg), &o);
                                }
                                let mut sk = Outcome::skip("token-and-tree-comparison-undecided");
                                sk.labels = o.labels.clone();
                                return sk;
                            }
                        }
                    }
                    _ => return Outcome::skip("token-comparison-undecided"),
                }
            }
        }
        // (3) tree shape: parenthesis-free pretty-printed ASTs
        let try_conv = co.use_try_shorthand && has_try_macro(src);
        if try_conv && !co.float_literal_trailing_zero {
            // `try!(e)` means `(e)?`: compare the output's tree with the input after that textual
            // conversion (the arguments of `try!` are opaque tokens in the input's own AST)
            if let (Some(conv), Some(naive)) = (rewrite_try(src, true), rewrite_try(src, false)) {
                // (rustfmt leaves some `try!` calls alone, e.g. inside macro arguments: the same
                // conversion is applied to the output)
                let out_conv = rewrite_try(&o1.text, true).unwrap_or_else(|| o1.text.clone());
                let out_naive = rewrite_try(&o1.text, false).unwrap_or_else(|| o1.text.clone());
                if let (Some(pa), Some(pb)) = (canon_pretty(&conv, &edition), canon_pretty(&out_conv, &edition)) {
                    let strict = CmpOpts { strict: true, use_try_shorthand: false, ..co.clone() };
                    match compare(&pa, &pb, &strict) {
                        Ok(_) => o.labels.push("ast-compared:try-conversion".into()),
                        Err(m) => {
                            // known class: the conversion drops the parentheses the operand needs
                            // (`try!(a + b)` -> `a + b?`): the output is the naive conversion
                            let is_naive = match (canon_pretty(&naive, &edition), canon_pretty(&out_naive, &edition)) {
                                (Some(pn), Some(po)) => compare(&pn, &po, &strict).is_ok(),
                                _ => false,
                            };
                            if is_naive {
                                if !judge_known {
                                    o.excluded.push("known-class:try-shorthand-drops-parentheses".into());
                                    return o;
                                }
                                return Outcome::fail("ast:try-shorthand-drops-parentheses", format!("`try!(e)` was converted to `e?` without the parentheses `e` needs: {}\n{src}\n--->\n{}", m.msg, o1.text)).nontrivial(true);
                            }
                            let general = key == "prog" && !case["tags"].as_array().map(|a| a.iter().any(|t| matches!(t.as_str(), Some("macro-program") | Some("replay")))).unwrap_or(false);
                            if general && std::env::var("VP_C01_GEN").is_err() {
                                let mut sk = Outcome::skip("tree-comparison-undecided");
                                sk.labels = o.labels.clone();
                                return sk;
                            }
                            return fail(&format!("ast:{}", m.class), format!("pretty-printed ASTs differ (after `try!(e)` -> `(e)?`): {}", m.msg), &o);
                        }
                    }
                }
            }
        } else if co.float_literal_trailing_zero || try_conv {
            // pprust spells `1. ..2.` ambiguously and `try!(..)` arguments are opaque tokens
            // in the input's AST: the tree-shape comparison does not apply
            o.excluded.push("ast-compare-not-applicable(float-spelling|try-conversion)".into());
        } else if !co.multiset_only {
            if let (Some(pa), Some(pb)) = (canon_pretty(src, &edition), canon_pretty(&o1.text, &edition)) {
                let strict = CmpOpts { strict: true, ..co.clone() };
                match compare(&pa, &pb, &strict) {
                    Ok(_) => o.labels.push("ast-compared".into()),
                    Err(m) => {
                        let general = key == "prog" && !case["tags"].as_array().map(|a| a.iter().any(|t| matches!(t.as_str(), Some("macro-program") | Some("replay")))).unwrap_or(false);
                        if general && std::env::var("VP_C01_GEN").is_err() {
                            // tokens agree, the printed trees do not: on general grammar programs
                            // this is pprust's context-dependent parenthesisation (about 1 in 10^5)
                            let mut sk = Outcome::skip("tree-comparison-undecided");
                            sk.labels = o.labels.clone();
                            return sk;
                        }
                        return fail(&format!("ast:{}", m.class), format!("pretty-printed ASTs differ: {}", m.msg), &o);
                    }
                }
            }
        }
        o
    }
}
