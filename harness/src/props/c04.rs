//! C04 Skip-marked code and opted-out files are emitted verbatim.

use std::process::{Command, Stdio};
use std::time::Duration;

use serde_json::{json, Value};

use crate::choices::Choices;
use crate::engine::{GenCtx, Outcome, Params, Property, RunCtx, Tier};
use crate::fmt::{format_text, opt, Opts};
use crate::gen::conf::{gen_conf, ConfSpace};
use crate::gen::prog::{gen_prog, render, ProgSpace, RenderOpts};
use crate::parse::{parses, skip_nodes};
use crate::props::common::*;

pub struct C04;

pub const SPACE: ConfSpace = ConfSpace {
    exclude: &["newline_style"],
    exclude_values: &[],
    allow_2027: true,
    min_edition: "2015",
    max_extra: 3,
    whitespace_axes: false,
};

const SPELLINGS: &[&str] = &["#[rustfmt::skip]", "#[cfg_attr(rustfmt, rustfmt::skip)]", "#[cfg_attr(rustfmt, rustfmt_skip)]", "#[rustfmt_skip]", "#[ rustfmt :: skip ]", "#[cfg_attr(any(), rustfmt::skip)]"];

const WILD_ARGS: &[&str] = &["a ,b,   c", " 1,2 , 3 ", "x=>y ;  z", "\n        a,\n  b  ,c\n", "foo ( 1,2 ) ,bar", "a  +  b", ""];

/// enclosing scopes for the name-list forms: (text before, text after, label)
const SCOPES: &[(&str, &str, &str)] = &[
    ("fn  outer ( ) {\n", "\n}\n", "fn-body"),
    ("fn outer() {\n    let  c = | x | {\n", "\n    };\n}\n", "closure-body"),
    ("fn outer() {\n    {\n        {\n", "\n        }\n    }\n}\n", "nested-block"),
    ("impl  S {\n    fn  m ( &self ) {\n", "\n    }\n}\n", "impl-method"),
    ("trait  T {\n    fn  m ( &self ) {\n", "\n    }\n}\n", "trait-method"),
    ("mod  inner {\n    fn  g ( ) {\n", "\n    }\n}\n", "inline-mod"),
    ("fn outer() {\n    if  cond {\n        match  v {\n            1 => {\n", "\n            }\n            _ => {}\n        }\n    }\n}\n", "match-arm-block"),
    ("fn outer() {\n    fn  nested ( ) {\n", "\n    }\n}\n", "nested-fn"),
];

/// containers that accept the skip attribute as an *inner* attribute: (text around the protected
/// node, the protected node with `{A}` standing for the attribute, label)
const INNER: &[(&str, &str, &str, &str)] = &[
    ("", "fn  f ( a : u8 ) {\n    {A}\n  let  x = 1 ;\n     call ( a,b ) ;\n}", "", "fn"),
    ("", "impl  Foo {\n {A}\n fn  g ( ) { }\n   const  C : u8 = 1 ;\n}", "", "impl"),
    ("", "trait  T {\n {A}\n fn  g ( ) ;\n   type  X ;\n}", "", "trait"),
    ("", "mod  m {\n {A}\n fn  g ( ) { }\n  use  b :: a ;\n}", "", "inline-mod"),
    ("", "extern \"C\" {\n {A}\n fn  g ( ) ;\n   static  X : u8 ;\n}", "", "extern-block"),
    ("impl  Bar {\n", "fn  h ( ) { {A}\n let  y = 2 ; }", "\n}", "method"),
    ("trait  Tr {\n", "fn  h ( ) { {A}\n let  y = 2 ; }", "\n}", "trait-method"),
    ("fn k() { let  c = | | ", "{ {A}\n let  z = 3 ; }", "; }", "closure-block"),
    ("fn outer ( ) {\n", "fn  n ( ) { {A}\n let  q = 4 ; }", "\n}", "nested-fn"),
    ("fn k ( ) {\n ", "{ {A}\n let  z = 3 ; }", "\n}", "block-statement"),
    ("mod  outer {\n", "mod  m {\n {A}\n fn  g ( ) { }\n}", "\n}", "nested-mod"),
];

const INNER_SPELLINGS: &[&str] = &["#![rustfmt::skip]", "#![cfg_attr(rustfmt, rustfmt::skip)]", "#![cfg_attr(rustfmt, rustfmt_skip)]", "#![ rustfmt :: skip ]", "#![cfg_attr(any(), rustfmt::skip)]"];

fn run_bin(r: &RunCtx, cwd: &std::path::Path, args: &[String]) -> Option<(Option<i32>, String, String)> {
    let out = Command::new(r.bin_dir.join("rustfmt")).args(args).current_dir(cwd).env("RUSTC_ICE", "0").stdin(Stdio::null()).stdout(Stdio::piped()).stderr(Stdio::piped()).output().ok()?;
    Some((out.status.code(), String::from_utf8_lossy(&out.stdout).into_owned(), String::from_utf8_lossy(&out.stderr).into_owned()))
}

const UGLY_BODY: &str = "fn  main ( ) {  let   x=1 ;\n      let y   =  vec! [ 1,2 ,3 ] ;   \n}\nstruct  S{a:u8,b:u8}\n";

impl Property for C04 {
    fn id(&self) -> &'static str {
        "C04"
    }
    fn needs_corpus(&self) -> bool {
        false
    }
    fn params(&self, tier: Tier) -> Params {
        Params {
            cases: match tier {
                Tier::Quick => 40_000,
                Tier::Thorough => 600_000,
            },
            max_bytes: 4096,
            timeout: Duration::from_secs(30),
        }
    }
    fn rule(&self) -> &'static str {
        "generated programs (grammar generator, 12 node kinds: items, nested/associated/foreign items, let / expression / macro statements, expressions, fields, variants, arms, inline modules) in which one node carries a skip attribute in one of six spellings and is laid out wildly, x width 20..200 x up to 3 options; hand-scoped programs in which a macro named by rustfmt::skip::macros (outer or inner attribute) or skip_macro_invocations, or an attribute named by rustfmt::skip::attributes, sits in one of eight enclosing scopes (function body, closure body, nested block, impl / trait method, inline module, match-arm block, nested fn); containers carrying the skip attribute as an inner attribute in five spellings (fn, impl, trait, inline and nested module, extern block, method, nested fn, closure block, block statement); whole-file opt-outs through the real binary (inner skip attribute, disable_all_formatting, ignore match, @generated marker with format_generated_files=false) in files mode and --check; oracle: the bytes of the node proper (located in the input by an independent parse, outer attributes excluded), of the macro arguments and of the named attribute occur in the emitted text byte for byte; an opted-out file is byte-identical afterwards, --check exits 0 and prints nothing; non-trivial = the protected bytes differ from what rustfmt makes of them without the protection; distinct by case content"
    }
    fn assumptions(&self) -> Vec<&'static str> {
        vec!["the input has LF terminators and newline_style is left at its default, so terminator conversion does not touch the skipped bytes", "the attribute must be accepted by the parser at the chosen node (cases where the program with the attribute does not parse are skipped)"]
    }
    fn generate(&self, c: &mut Choices<'_>, _g: &GenCtx) -> Value {
        match c.weighted(&[6, 3, 1, 1]) {
            3 => {
                let (pre, node, post, label) = *c.pick(INNER);
                let attr = *c.pick(INNER_SPELLINGS);
                let protected = node.replace("{A}", attr);
                let mut src = String::new();
                if c.flip() {
                    src.push_str("fn  before ( ) { }\n");
                }
                src.push_str(&format!("{pre}{protected}{post}\n"));
                if c.flip() {
                    src.push_str("fn  after ( ) { }\n");
                }
                let mut opts: Opts = vec![("max_width".into(), (30 + c.below(100)).to_string())];
                if c.chance(1, 4) {
                    opts.push(("hard_tabs".into(), "true".into()));
                }
                if c.chance(1, 4) {
                    opts.push(("style_edition".into(), (*c.pick(&["2015", "2021", "2024"])).to_string()));
                }
                json!({"kind": "inner-skip", "src": src, "opts": opts_to(&opts), "protected": [protected], "scope": label, "via": attr, "attr": attr})
            }
            0 => {
                let p = gen_prog(c, &ProgSpace::default());
                // choose the node kind first, then a node of that kind (kinds are very unevenly frequent)
                let pre = render(&p, &mut Choices::new(&[]), &RenderOpts::default());
                let mut kinds: Vec<&'static str> = pre.nodes.iter().map(|n| n.kind.name()).collect();
                kinds.sort();
                kinds.dedup();
                let node = if kinds.is_empty() {
                    None
                } else {
                    let k = *c.pick(&kinds);
                    let of_kind: Vec<usize> = pre.nodes.iter().filter(|n| n.kind.name() == k).map(|n| n.id).collect();
                    Some(*c.pick(&of_kind))
                };
                let spelling = *c.pick(SPELLINGS);
                let sep = if c.flip() { "\n" } else { " " };
                let wild = 1 + c.below(3);
                let r = render(
                    &p,
                    c,
                    &RenderOpts {
                        wild,
                        wild_node: node,
                        node_prefix: format!("{spelling}{sep}"),
                        ..Default::default()
                    },
                );
                let space = ConfSpace {
                    min_edition: p.min_edition,
                    ..SPACE
                };
                let mut opts = gen_conf(c, &space);
                if p.only_2015 {
                    for o in opts.iter_mut() {
                        if o.0 == "edition" {
                            o.1 = "2015".into();
                        }
                    }
                }
                let kind = node.and_then(|n| r.nodes.iter().find(|x| x.id == n)).map(|n| n.kind.name()).unwrap_or("none");
                json!({"kind": "node", "src": r.text, "opts": opts_to(&opts), "node_kind": kind, "spelling": spelling})
            }
            1 => {
                let (pre, post, scope) = *c.pick(SCOPES);
                let what = c.weighted(&[3, 2]);
                let via = c.below(4); // 0 outer attr on the outermost item, 1 inner crate attr, 2 config, 3 config "*"
                let args = *c.pick(WILD_ARGS);
                let delim = *c.pick(&[("(", ")"), ("[", "]"), ("{", "}")]);
                let mut opts: Opts = vec![("max_width".into(), (30 + c.below(100)).to_string())];
                if what == 0 {
                    let stmt = format!("mname!{}{}{} ;\n  let  v = mname!{}{}{} ;\n other ! ( 1,2 ) ;", delim.0, args, delim.1, delim.0, args, delim.1);
                    let mut src = format!("{pre}{stmt}{post}");
                    match via {
                        0 => src = format!("#[rustfmt::skip::macros(mname)]\n{src}"),
                        1 => src = format!("#![rustfmt::skip::macros(mname)]\n{src}"),
                        2 => opts.push(("skip_macro_invocations".into(), "[\"mname\"]".into())),
                        _ => opts.push(("skip_macro_invocations".into(), "[\"*\"]".into())),
                    }
                    json!({"kind": "macro-list", "src": src, "opts": opts_to(&opts), "protected": [format!("mname!{}{}{}", delim.0, args, delim.1)], "scope": scope, "via": via})
                } else {
                    let attr = format!("#[custom{}{}{}]", "(", args.replace(['\n', ';'], " ").replace("=>", ","), ")");
                    let inner = format!("{attr}\n  let  w = 1 ;\n {attr}\n fn  inner_item ( ) {{ }}");
                    let mut src = format!("{pre}{inner}{post}");
                    if via % 2 == 0 {
                        src = format!("#[rustfmt::skip::attributes(custom)]\n{src}");
                    } else {
                        src = format!("#![rustfmt::skip::attributes(custom)]\n{src}");
                    }
                    json!({"kind": "attribute-list", "src": src, "opts": opts_to(&opts), "protected": [attr], "scope": scope, "via": via % 2})
                }
            }
            _ => {
                let how = c.below(6);
                let mode = c.below(2);
                json!({"kind": "whole-file", "how": how, "files_mode": mode == 0, "marker_line": c.below(7), "marker_place": c.below(3)})
            }
        }
    }
    fn run(&self, case: &Value, r: &RunCtx) -> Outcome {
        let judge_known = case["judge_known"].as_bool().unwrap_or(false) || std::env::var("VP_JUDGE_KNOWN").is_ok();
        let mut o = Outcome::pass();
        match case["kind"].as_str().unwrap_or("") {
            "node" => {
                let src = case["src"].as_str().unwrap_or("");
                let opts = opts_from(&case["opts"]);
                let edition = opt(&opts, "edition").unwrap_or("2015").to_owned();
                let Some((nodes, whole)) = skip_nodes(src, &edition) else {
                    return Outcome::skip("input-does-not-parse-with-attribute");
                };
                if whole || nodes.is_empty() {
                    return Outcome::skip("no-skip-node");
                }
                let out = format_text(src, &opts);
                if !out.emitted() || out.text.is_empty() {
                    return Outcome::skip("not-emitted");
                }
                o.labels.extend(conf_labels(&opts));
                o.labels.push(format!("node:{}", case["node_kind"].as_str().unwrap_or("?")));
                o.labels.push(format!("spelling:{}", case["spelling"].as_str().unwrap_or("?")));
                let text = out.text.replace("\r\n", "\n");
                let mut cursor = 0usize;
                let mut last_hi = 0usize;
                for n in &nodes {
                    if n.lo < last_hi {
                        continue; // nested in a skipped node already checked
                    }
                    last_hi = n.hi;
                    let main = n.attrs_hi + src[n.attrs_hi..n.hi].len() - src[n.attrs_hi..n.hi].trim_start().len();
                    // (for an expression statement: the expression; the `;` is not part of it)
                    let protected = &src[main..n.inner_hi.max(main)];
                    o.labels.push(format!("parsed-as:{}{}", n.kind, if n.nested { "/nested" } else { "" }));
                    match text[cursor..].find(protected) {
                        Some(p) => cursor += p + protected.len(),
                        None => {
                            // known classes (recorded, not repaired: the repair would change
                            // the text emitted under released style editions, cf. C09)
                            let before = src[..n.lo].trim_end();
                            let known = if n.kind == "foreign" {
                                Some("foreign-item")
                            } else if n.kind == "expr" && protected.starts_with('(') && before.ends_with('(') && opt(&opts, "remove_nested_parens") != Some("false") {
                                Some("nested-paren")
                            } else if n.kind == "expr" && protected.starts_with('{') && before.ends_with('|') {
                                Some("closure-body-block")
                            } else {
                                None
                            };
                            if let Some(k) = known {
                                if !judge_known {
                                    o.excluded.push(format!("known-class:skip-ignored/{k}"));
                                    continue;
                                }
                                return Outcome::fail(format!("skipped-{}-changed/{k}", n.kind), format!("the {} carrying the skip attribute does not appear byte for byte\n--- protected bytes ---\n{protected}\n--- input ---\n{src}\n--- output ---\n{text}\nopts {opts:?}", n.kind)).nontrivial(true);
                            }
                            let class = format!("skipped-{}-changed", n.kind);
                            return Outcome::fail(class, format!("the {} carrying the skip attribute does not appear byte for byte\n--- protected bytes ---\n{protected}\n--- input ---\n{src}\n--- output ---\n{text}\nopts {opts:?}", n.kind)).nontrivial(true);
                        }
                    }
                }
                // non-trivial: without the attribute the node would have been changed
                let plain = nodes.iter().fold(src.to_string(), |acc, n| {
                    // blank out the attribute (same length keeps offsets)
                    let mut s = acc;
                    let attr = &src[n.lo..n.attrs_hi];
                    if !attr.is_empty() {
                        s.replace_range(n.lo..n.attrs_hi, &" ".repeat(attr.len()));
                    }
                    s
                });
                let unprotected = format_text(&plain, &opts);
                let first = &nodes[0];
                let main = first.attrs_hi + src[first.attrs_hi..first.hi].len() - src[first.attrs_hi..first.hi].trim_start().len();
                o.nontrivial = unprotected.emitted() && !unprotected.text.contains(&src[main..first.hi]);
            }
            "macro-list" | "attribute-list" | "inner-skip" => {
                let src = case["src"].as_str().unwrap_or("");
                let opts = opts_from(&case["opts"]);
                if !parses(src, "2015") {
                    return Outcome::skip("input-does-not-parse");
                }
                let out = format_text(src, &opts);
                if !out.emitted() || out.text.is_empty() {
                    return Outcome::skip("not-emitted");
                }
                let kind = case["kind"].as_str().unwrap_or("");
                o.labels.push(format!("{kind}:{}", case["scope"].as_str().unwrap_or("?")));
                o.labels.push(format!("{kind}:via:{}", case["via"]));
                let protected: Vec<String> = case["protected"].as_array().map(|a| a.iter().filter_map(|x| x.as_str().map(|s| s.to_owned())).collect()).unwrap_or_default();
                for p in &protected {
                    let want = src.matches(p.as_str()).count();
                    let got = out.text.matches(p.as_str()).count();
                    if got < want {
                        return Outcome::fail(format!("{kind}-changed:{}", case["scope"].as_str().unwrap_or("?")), format!("`{p}` occurs {want} times in the input and {got} times in the output\n--- input ---\n{src}\n--- output ---\n{}\nopts {opts:?}", out.text)).nontrivial(true);
                    }
                }
                if kind == "inner-skip" {
                    // non-trivial: without the attribute the container is changed
                    let attr = case["attr"].as_str().unwrap_or("");
                    let un = format_text(&src.replace(attr, ""), &opts);
                    o.nontrivial = un.emitted() && protected.iter().any(|p| !un.text.contains(&p.replace(attr, "")));
                    return o;
                }
                // non-trivial: the same text without the protection is changed
                let stripped: String = src.lines().filter(|l| !l.contains("rustfmt::skip::")).collect::<Vec<_>>().join("\n") + "\n";
                let bare_opts: Opts = opts.iter().filter(|(k, _)| k != "skip_macro_invocations").cloned().collect();
                let un = format_text(&stripped, &bare_opts);
                o.nontrivial = un.emitted() && protected.iter().any(|p| un.text.matches(p.as_str()).count() < stripped.matches(p.as_str()).count());
            }
            "whole-file" => {
                let base = r.tmp.join(format!("c04-{}", r.case_no));
                let _ = std::fs::remove_dir_all(&base);
                let dir = base.join("proj/src");
                let _ = std::fs::create_dir_all(&dir);
                let how = case["how"].as_u64().unwrap_or(0);
                let files_mode = case["files_mode"].as_bool().unwrap_or(true);
                let mut body = UGLY_BODY.to_string();
                let mut conf = String::new();
                let label;
                match how {
                    0 => {
                        body = format!("#![rustfmt::skip]\n{body}");
                        label = "inner-skip";
                    }
                    1 => {
                        body = format!("#![cfg_attr(rustfmt, rustfmt::skip)]\n{body}");
                        label = "inner-cfg_attr-skip";
                    }
                    2 => {
                        conf = "disable_all_formatting = true\n".into();
                        label = "disable_all_formatting";
                    }
                    3 => {
                        conf = "ignore = [\"src\"]\n".into();
                        label = "ignore-directory";
                    }
                    4 => {
                        conf = "ignore = [\"src/lib.rs\"]\n".into();
                        label = "ignore-file";
                    }
                    _ => {
                        conf = "format_generated_files = false\n".into();
                        // the marker on one of the first five lines, in several places
                        let line = case["marker_line"].as_u64().unwrap_or(0) as usize % 5;
                        let marker = match case["marker_place"].as_u64().unwrap_or(0) {
                            0 => "// @generated".to_string(),
                            1 => "/* header\n * @generated by a tool\n */".to_string(),
                            _ => "const  A:u8=1 ; // @generated".to_string(),
                        };
                        let extra = marker.matches('\n').count();
                        let before = "// line\n".repeat(line.saturating_sub(extra));
                        body = format!("{before}{marker}\n{body}");
                        label = "generated-marker";
                    }
                }
                let file = dir.join("lib.rs");
                let _ = std::fs::write(&file, &body);
                if !conf.is_empty() {
                    let _ = std::fs::write(base.join("proj/rustfmt.toml"), &conf);
                }
                let mut args: Vec<String> = vec![];
                if !files_mode {
                    args.push("--check".into());
                }
                args.push("src/lib.rs".into());
                let Some((code, stdout, stderr)) = run_bin(r, &base.join("proj"), &args) else {
                    let _ = std::fs::remove_dir_all(&base);
                    return Outcome::skip("cannot-run-rustfmt");
                };
                let after = std::fs::read_to_string(&file).unwrap_or_default();
                let _ = std::fs::remove_dir_all(&base);
                o.labels.push(format!("whole-file:{label}:{}", if files_mode { "files" } else { "check" }));
                o.nontrivial = true;
                if after != body {
                    return Outcome::fail(format!("opted-out-file-changed:{label}"), format!("the file opts out ({label}) but was rewritten\n--- before ---\n{body}\n--- after ---\n{after}\nconfig: {conf}")).nontrivial(true);
                }
                if code != Some(0) || !stdout.is_empty() {
                    return Outcome::fail(format!("opted-out-file-reported:{label}"), format!("the file opts out ({label}) but rustfmt {args:?} exits with {code:?} and prints\n{stdout}\n{stderr}\n--- file ---\n{body}\nconfig: {conf}")).nontrivial(true);
                }
            }
            _ => return Outcome::skip("unknown-kind"),
        }
        o.labels.sort();
        o.labels.dedup();
        o
    }
}
