//! C03 Comments are never silently dropped.

use std::collections::BTreeMap;
use std::time::Duration;

use serde_json::{json, Value};

use crate::choices::Choices;
use crate::engine::{GenCtx, Outcome, Params, Property, RunCtx, Tier};
use crate::fmt::{format_text, opt, opt_bool, Opts};
use crate::gen::conf::{gen_conf, ConfSpace};
use crate::gen::prog::{gen_prog, render, ProgSpace, RenderOpts};
use crate::lex::lex;
use crate::props::common::*;

pub struct C03;

pub const SPACE: ConfSpace = ConfSpace {
    exclude: &[],
    exclude_values: &[],
    allow_2027: true,
    min_edition: "2015",
    max_extra: 4,
    whitespace_axes: false,
};

/// Comment text up to re-indentation and trimming of trailing blanks.
pub fn norm_comment(text: &str) -> String {
    if let Some(body) = text.strip_prefix("//") {
        return format!("//{}", body.trim_end());
    }
    let inner = text.strip_prefix("/*").unwrap_or(text);
    let inner = inner.strip_suffix("*/").unwrap_or(inner);
    let lines: Vec<String> = inner
        .lines()
        .map(|l| {
            let l = l.trim();
            let l = l.strip_prefix('*').map(|r| r.trim_start()).unwrap_or(l);
            l.to_owned()
        })
        .filter(|l| !l.is_empty())
        .collect();
    format!("/*{}*/", lines.join("\n"))
}

/// The words of a comment without its delimiters and leading `*`.
pub fn comment_chars(text: &str) -> String {
    comment_words(text).concat()
}

pub fn comment_words(text: &str) -> Vec<String> {
    let body = if let Some(b) = text.strip_prefix("//") {
        b.to_owned()
    } else {
        let inner = text.strip_prefix("/*").unwrap_or(text);
        let inner = inner.strip_suffix("*/").unwrap_or(inner);
        inner
            .lines()
            .map(|l| {
                let l = l.trim();
                l.strip_prefix('*').unwrap_or(l).to_owned()
            })
            .collect::<Vec<_>>()
            .join(" ")
    };
    body.split_whitespace().map(|w| w.to_owned()).collect()
}

/// Vertically aligned lists (struct fields, struct-literal fields, enum discriminants) under the
/// alignment thresholds: groups separated by blank lines, trailing and leading comments with
/// ASCII and multi-byte text on first / middle / last elements of each group.
pub fn gen_aligned(c: &mut Choices<'_>) -> Value {
    const NAMES: &[&str] = &["a", "bb", "gamma_long", "d", "alpha", "x_coordinate", "größe", "n2"];
    const WORDS: &[&str] = &["", " note", " größe über alles ok", " ünïcode ✓ ✓", " a longer remark about this element", " 日本語のコメント"];
    let kind = c.below(3);
    let groups = 1 + c.below(3);
    let mut comments: Vec<Value> = vec![];
    let mut next = 0usize;
    let mut body = String::new();
    let mut idx = 0usize;
    for g in 0..groups {
        if g > 0 {
            // the separator line is empty or holds only blanks
            body.push_str(*c.pick(&["", "", "    ", "\t", "  "]));
            body.push('\n');
        }
        let n = 1 + c.below(4);
        for i in 0..n {
            let name = format!("{}{idx}", NAMES[c.below(NAMES.len())]);
            idx += 1;
            let elem = match kind {
                0 => format!("{name}: {}", *c.pick(&["u8", "Vec<String>", "Option<u16>"])),
                1 => format!("{name}: {}", *c.pick(&["1", "compute(2)", "\"s\""])),
                _ => format!("V{name} = {}", 1 + c.below(300)),
            };
            // leading comment on its own line
            if c.chance(1, 6) {
                let payload = format!("c{next}");
                next += 1;
                let text = format!("// {payload}{}", *c.pick(WORDS));
                body.push_str(&format!("    {text}\n"));
                comments.push(json!({"payload": payload, "text": text, "slot": "aligned-leading", "block": false}));
            }
            body.push_str(&format!("    {elem},"));
            // trailing comment, most often on the last element of the group
            let p_trailing = if i + 1 == n { 2 } else { 5 };
            if c.chance(1, p_trailing) {
                let payload = format!("c{next}");
                next += 1;
                let block = c.chance(1, 4);
                let words = *c.pick(WORDS);
                let text = if block { format!("/* {payload}{words} */") } else { format!("// {payload}{words}") };
                body.push_str(&format!(" {text}"));
                comments.push(json!({"payload": payload, "text": text, "slot": "aligned-trailing", "block": block}));
            }
            body.push('\n');
        }
    }
    let src = match kind {
        0 => format!("struct Foo {{\n{body}}}\n"),
        1 => format!("fn f() {{\n    let v = Foo {{\n{body}    }};\n}}\n"),
        _ => format!("enum E {{\n{body}}}\n"),
    };
    let mut opts: Opts = vec![];
    let t = *c.pick(&["0", "5", "20", "40"]);
    opts.push((if kind == 2 { "enum_discrim_align_threshold" } else { "struct_field_align_threshold" }.to_string(), t.to_string()));
    if c.chance(1, 3) {
        opts.push(("max_width".into(), (30 + c.below(90)).to_string()));
    }
    if c.chance(1, 4) {
        opts.push(("hard_tabs".into(), "true".into()));
    }
    json!({"src": src, "opts": opts_to(&opts), "origin": "prog", "layout": 0, "comments": comments})
}

/// A run of imports, some of which import nothing (rustfmt deletes those), with line and block
/// comments before them and at the end of their lines.
fn gen_imports(c: &mut Choices<'_>) -> Value {
    let n = 2 + c.below(5);
    // exact duplicates of the first import (merged away under the granularity options unless a
    // comment is attached); only without reordering, which moves trailing comments (KF of C11)
    let dups = c.chance(1, 3);
    let mut comments: Vec<Value> = vec![];
    let mut next = 0usize;
    let mut src = String::new();
    for i in 0..n {
        if c.chance(1, 4) {
            let payload = format!("c{next}");
            next += 1;
            let text = format!("// {payload} before import {i}");
            src.push_str(&format!("{text}\n"));
            comments.push(json!({"payload": payload, "text": text, "slot": "import-leading", "block": false}));
        }
        let body = match c.weighted(&[4, 2, 1, if dups { 3 } else { 0 }]) {
            3 => "use m0::a;".to_string(),
            0 if i == 0 => "use m0::a;".to_string(),
            0 => format!("use m{i}::{};", *c.pick(&["a", "{b, a}", "x as y", "*"])),
            1 => format!("use e{i}::{{}};"),
            _ => "use {};".to_string(),
        };
        src.push_str(&body);
        if c.chance(1, 3) {
            let payload = format!("c{next}");
            next += 1;
            let block = c.chance(1, 4);
            let text = if block { format!("/* {payload} after import {i} */") } else { format!("// {payload} after import {i}") };
            src.push_str(&format!(" {text}"));
            comments.push(json!({"payload": payload, "text": text, "slot": "import-trailing", "block": block}));
        }
        src.push('\n');
        if c.chance(1, 6) {
            src.push('\n');
        }
    }
    src.push_str("\nfn after_imports() {}\n");
    let mut opts: Opts = vec![];
    if dups || c.flip() {
        opts.push(("reorder_imports".into(), "false".into()));
    }
    if dups && c.chance(2, 3) {
        // (Item granularity drops commented duplicates: a known finding of C10)
        opts.push(("imports_granularity".into(), (*c.pick(&["Crate", "Module", "One"])).to_string()));
    }
    json!({"src": src, "opts": opts_to(&opts), "origin": "prog", "layout": 0, "comments": comments})
}

/// An item in statement position followed by a comment and a redundant `;` (which rustfmt may
/// drop), under every style edition.
fn gen_item_stmt_semicolon(c: &mut Choices<'_>) -> Value {
    let mut comments: Vec<Value> = vec![];
    let mut body = String::new();
    let n = 1 + c.below(3);
    for i in 0..n {
        let item = match c.below(5) {
            0 => format!("struct Unit{i};"),
            1 => format!("fn  inner{i} ( ) {{ }}"),
            2 => format!("const C{i} : u8 = {i} ;"),
            3 => format!("enum E{i} {{ A , B }}"),
            _ => format!("use  m{i} :: x ;"),
        };
        let payload = format!("c{i}");
        let block = c.chance(1, 4);
        let text = if block { format!("/* {payload} about the item */") } else { format!("// {payload} about the item") };
        match c.below(3) {
            0 => body.push_str(&format!("    {item} {text}\n    ;\n")),
            1 => body.push_str(&format!("    {item}\n    {text}\n    ;\n")),
            _ => body.push_str(&format!("    {item} {text}\n    let  v{i} = {i} ;\n")),
        }
        comments.push(json!({"payload": payload, "text": text, "slot": "after-item-statement", "block": block}));
    }
    let src = format!("fn f() {{\n{body}}}\n");
    let opts: Opts = vec![("style_edition".into(), (*c.pick(&["2015", "2021", "2024", "2027"])).to_string())];
    json!({"src": src, "opts": opts_to(&opts), "origin": "prog", "layout": 0, "comments": comments})
}

impl Property for C03 {
    fn id(&self) -> &'static str {
        "C03"
    }
    fn params(&self, tier: Tier) -> Params {
        Params {
            cases: match tier {
                Tier::Quick => 8_000,
                Tier::Thorough => 200_000,
            },
            max_bytes: 1024,
            timeout: Duration::from_secs(20),
        }
    }
    fn rule(&self) -> &'static str {
        "corpus grid cells whose comments are judged when an independent parse places them at item / statement / list-element boundaries or inside a function body, and generated programs with uniquely numbered line/block comments injected at the slot kinds the property names (between items, statements, fields, variants, arms, parameters, arguments, end of such a line, inside a function-body statement), runs of imports with comments (empty imports, exact duplicates under the granularity options), items in statement position followed by a comment and a redundant semicolon under every style edition; oracle: every judged comment reappears with the same text up to re-indentation and trailing blanks (unique payloads exactly once; repeated corpus comments with the same multiplicity), no comment text is invented; under wrap_comments/normalize_comments the words of every comment appear in order in the output's comment stream; non-trivial = the case has a judged comment and the formatted text differs from the input; distinct by case content"
    }
    fn assumptions(&self) -> Vec<&'static str> {
        vec!["comments outside the claimed positions (e.g. between `fn` and the name) are counted, not judged", "runs in which rustfmt reports a parse error are not judged; a reported LostComment leaves the statement as written and is judged like any other run"]
    }
    fn enum_len(&self, g: &GenCtx) -> usize {
        grid_len(g, 100_000, usize::MAX)
    }
    fn enum_case(&self, g: &GenCtx, i: usize) -> Option<Value> {
        let n = self.enum_len(g);
        let cell = grid_pick(g, "C03", n, i, &SPACE, false);
        let key = crate::props::c02::chunk_key(&cell.src.origin);
        if g.known_sigs.iter().any(|s| s.ends_with(&format!("@{key}"))) {
            return None;
        }
        // cells without any comment are outside the property's domain
        if !cell.src.text.contains("//") && !cell.src.text.contains("/*") {
            return None;
        }
        Some(cell_case(&cell))
    }
    fn generate(&self, c: &mut Choices<'_>, _g: &GenCtx) -> Value {
        if c.chance(1, 5) {
            return gen_aligned(c);
        }
        if c.chance(1, 10) {
            return gen_imports(c);
        }
        if c.chance(1, 20) {
            return gen_item_stmt_semicolon(c);
        }
        let p = gen_prog(
            c,
            &ProgSpace {
                // an empty statement between two comments makes rustfmt glue them (known finding)
                no_empty_stmt: true,
                // trailing comments of reordered imports are the subject of C11 (known finding there)
                no_imports: true,
                ..ProgSpace::default()
            },
        );
        let wild = c.weighted(&[4, 3, 2, 1]);
        let comment_p = 4 + c.below(9);
        let in_stmt_p = if c.chance(1, 2) { 1 + c.below(4) } else { 0 };
        let r = render(
            &p,
            c,
            &RenderOpts {
                wild,
                comment_p,
                in_stmt_p,
                // multi-line block comments after code are split by a known defect
                single_line_blocks: true,
                ..Default::default()
            },
        );
        let space = ConfSpace {
            min_edition: p.min_edition,
            // the comment-rewriting options are exercised on the corpus grid; on generated
            // programs they trip several known wrapping defects
            exclude: &["wrap_comments", "normalize_comments"],
            ..SPACE
        };
        let mut opts = gen_conf(c, &space);
        if p.only_2015 {
            for o in opts.iter_mut() {
                if o.0 == "edition" {
                    o.1 = "2015".into();
                }
            }
        }
        let comments: Vec<Value> = r.comments.iter().map(|cm| json!({"payload": cm.payload, "text": cm.text, "slot": cm.slot, "block": cm.block})).collect();
        json!({"src": r.text, "opts": opts_to(&opts), "origin": "prog", "layout": wild, "comments": comments})
    }
    fn run(&self, case: &Value, _r: &RunCtx) -> Outcome {
        let src = case["src"].as_str().unwrap_or("");
        let opts = opts_from(&case["opts"]);
        let origin = case["origin"].as_str().unwrap_or("");
        let key = crate::props::c02::chunk_key(origin);
        let edition = opt(&opts, "edition").unwrap_or("2015").to_owned();
        let words_mode = opt_bool(&opts, "wrap_comments", false) || opt_bool(&opts, "normalize_comments", false);
        let judge_known = case["judge_known"].as_bool().unwrap_or(false) || std::env::var("VP_JUDGE_KNOWN").is_ok();
        let r = format_text(src, &opts);
        if !r.emitted() {
            return Outcome::skip("not-emitted");
        }
        if r.text.is_empty() && !src.trim().is_empty() {
            return Outcome::skip("echoed-to-stdout");
        }
        let mut o = Outcome::pass();
        o.labels.extend(conf_labels(&opts));
        let out_comments: Vec<String> = lex(&r.text).iter().filter(|t| t.kind.is_comment()).map(|t| t.text(&r.text).to_owned()).collect();
        let fail = |class: String, msg: String, o: &Outcome| -> Outcome {
            let mut f = Outcome::fail(format!("{class}@{key}"), msg);
            f.labels = o.labels.clone();
            f.nontrivial = true;
            f
        };
        if origin == "prog" {
            // known class (the defect recorded as KF-C01-1): under normalize_doc_attributes a doc
            // attribute that shares its line with an item rustfmt cannot lay out swallows the
            // item's header, comments included
            if opt_bool(&opts, "normalize_doc_attributes", false) && crate::props::c01::doc_attr_shares_line(src) {
                if !judge_known {
                    o.excluded.push("known-class:doc-attribute-swallows-item".into());
                    return o;
                }
                let lost = case["comments"].as_array().map(|a| a.iter().any(|cm| !out_comments.iter().any(|c| Some(c.as_str()) == cm["text"].as_str()))).unwrap_or(false);
                // (replay files of other known classes may satisfy this predicate too: only the
                // replay that names this class is judged for it)
                if lost && case["judge_class"].as_str() == Some("doc-attribute-swallows-item") {
                    return Outcome::fail("lost:doc-attribute-swallows-item", format!("a comment of the item header went into the doc comment made from the attribute\n{src}\n--->\n{}", r.text)).nontrivial(true);
                }
            }
            // unique payloads: exactly once, same text
            let list = case["comments"].as_array().cloned().unwrap_or_default();
            if list.is_empty() {
                return Outcome::skip("no-comment-generated");
            }
            o.nontrivial = r.text != src;
            let out_words: String = out_comments.iter().map(|c| comment_chars(c)).collect();
            for cm in &list {
                let payload = cm["payload"].as_str().unwrap_or("");
                let text = cm["text"].as_str().unwrap_or("");
                let slot = cm["slot"].as_str().unwrap_or("");
                let style = if cm["block"].as_bool() == Some(true) { "block" } else { "line" };
                o.labels.push(format!("slot:{slot}:{style}"));
                let hits: Vec<&String> = out_comments.iter().filter(|c| comment_words(c).first().map(|w| w == payload).unwrap_or(false)).collect();
                if words_mode {
                    let w = comment_chars(text);
                    if !out_words.contains(&w) {
                        // known class: comment rewriting mangles a multi-line block comment that
                        // follows code on its line
                        if text.contains('\n') {
                            if !judge_known {
                                o.excluded.push("known-class:rewrite-mangles-multiline-block-comment".into());
                                continue;
                            }
                            return Outcome::fail("words-lost:multiline-block-comment", format!("the words of comment {text:?} ({slot}) do not appear in order in the output\n{src}\n--->\n{}", r.text)).nontrivial(true);
                        }
                        return fail(format!("words-lost:{slot}:{style}"), format!("the words of comment {text:?} ({slot}) do not appear in order in the output\n{src}\n--->\n{}", r.text), &o);
                    }
                    continue;
                }
                if hits.is_empty() && slot == "between-params" {
                    // known class: a comment directly before an attribute on a parameter is dropped
                    let after = src.find(text).map(|i| src[i + text.len()..].trim_start()).unwrap_or("");
                    if after.starts_with('#') {
                        if !judge_known {
                            o.excluded.push("known-class:comment-before-parameter-attribute".into());
                            continue;
                        }
                        return Outcome::fail("lost:comment-before-parameter-attribute", format!("comment {text:?} before an attributed parameter is lost\n{src}\n--->\n{}", r.text)).nontrivial(true);
                    }
                }
                // known class: the line comments around imports that rustfmt deletes (`use a::{};`)
                // are glued together on one line, so one comment ends up inside another
                if slot.starts_with("import-") && (src.contains("{};")) {
                    let glued_into_other = hits.is_empty() && out_comments.iter().any(|c| c.contains(text));
                    let extended = hits.len() == 1 && hits[0].starts_with(text) && hits[0].len() > text.len();
                    if glued_into_other || extended {
                        if !judge_known {
                            if !o.excluded.iter().any(|x| x.contains("deleted-imports")) {
                                o.excluded.push("known-class:comments-of-deleted-imports-glued".into());
                            }
                            continue;
                        }
                        return Outcome::fail("altered:comments-of-deleted-imports-glued", format!("comment {text:?} ({slot}) is glued to another comment\n{src}\n--->\n{}", r.text)).nontrivial(true);
                    }
                }
                if hits.len() != 1 {
                    let class = if hits.is_empty() { "lost" } else { "duplicated" };
                    return fail(format!("{class}:{slot}:{style}"), format!("comment {text:?} ({slot}) occurs {} times in the output\n{src}\n--->\n{}", hits.len(), r.text), &o);
                }
                if norm_comment(hits[0]) != norm_comment(text) {
                    return fail(format!("altered:{slot}:{style}"), format!("comment {text:?} ({slot}) became {:?}\n{src}\n--->\n{}", hits[0], r.text), &o);
                }
            }
            let known_skipped = o.excluded.iter().any(|x| x.starts_with("known-class:"));
            if !words_mode && !known_skipped && out_comments.len() != list.len() {
                return fail("invented".into(), format!("{} comments in the input, {} in the output\n{src}\n--->\n{}", list.len(), out_comments.len(), r.text), &o);
            }
            return o;
        }
        // corpus: judged comments by position
        let Some(positions) = comment_positions(src, &edition) else {
            return Outcome::skip("oracle-parse-failed");
        };
        if positions.is_empty() {
            return Outcome::skip("no-comments");
        }
        let mut judged: BTreeMap<String, usize> = BTreeMap::new();
        let mut total: BTreeMap<String, usize> = BTreeMap::new();
        let mut judged_texts: Vec<&str> = vec![];
        for (lo, hi, pos) in &positions {
            let text = &src[*lo..*hi];
            let n = norm_comment(text);
            *total.entry(n.clone()).or_default() += 1;
            if *pos != CommentPos::Odd {
                *judged.entry(n).or_default() += 1;
                judged_texts.push(text);
            } else {
                o.excluded.push("comment-outside-claimed-positions".into());
            }
        }
        if judged_texts.is_empty() {
            return Outcome::skip("no-judged-comments");
        }
        o.nontrivial = r.text != src;
        if words_mode {
            let out_words: String = out_comments.iter().map(|c| comment_chars(c)).collect();
            for t in &judged_texts {
                let w = comment_chars(t);
                if !out_words.contains(&w) {
                    return fail("words-lost".into(), format!("the words of comment {t:?} do not appear in order in the output's comments\n--->\n{}", r.text), &o);
                }
            }
            return o;
        }
        let mut out_count: BTreeMap<String, usize> = BTreeMap::new();
        for c in &out_comments {
            *out_count.entry(norm_comment(c)).or_default() += 1;
        }
        for (t, n) in &judged {
            let got = out_count.get(t).copied().unwrap_or(0);
            if got < *n {
                return fail("lost".into(), format!("comment {t:?} occurs {n} times at claimed positions of the input but {got} times in the output\n--->\n{}", r.text), &o);
            }
        }
        for (t, n) in &out_count {
            let had = total.get(t).copied().unwrap_or(0);
            if *n > had {
                let class = if had == 0 { "invented-or-altered" } else { "duplicated" };
                return fail(class.into(), format!("comment {t:?} occurs {n} times in the output but {had} times in the input\n--->\n{}", r.text), &o);
            }
        }
        o
    }
}
