//! C19 format-diff turns a patch into exactly the lines it added.

use std::collections::BTreeSet;
use std::io::Write;
use std::os::unix::fs::PermissionsExt;
use std::process::{Command, Stdio};
use std::time::Duration;

use serde_json::{json, Value};

use crate::choices::Choices;
use crate::engine::{GenCtx, Outcome, Params, Property, RunCtx, Tier};

pub struct C19;

const PATHS: &[&str] = &["src/lib.rs", "src/main.rs", "src/a/b.rs", "x.rs", "src/util/mod.rs", "README.md", "src/data.txt", "build.rs", "tests/t.rs", "src/a/c.rs.in"];
const BODY: &[&str] = &[
    "fn main() {",
    "}",
    "    let x = 1;",
    "    let y = a +1;",
    "// see @@ -1,2 +3,4 @@ in the docs",
    "    x += 10; // +5 more",
    "text with +++ b/evil.rs inside",
    "",
    "struct S { a: u8 }",
    "impl S { fn f(&self) -> u8 { self.a +7 } }",
    "--- not a header",
    "- b/x.rs",
    "@ @@",
];
const SECTIONS: &[&str] = &["", "", " fn f(a: u32) -> u32 {", " impl Foo {", " fn g() { a +1 }", " mod m { // +12,3", " struct S;", " fn h(x: i32) -> i32 { x +9,9 }"];

#[derive(Debug, Clone)]
struct Hunk {
    pre_start: u32,
    pre_count: u32,
    post_start: u32,
    post_count: u32,
    with_counts: bool,
    section: String,
    body: Vec<String>,
}

fn gen_file_hunks(c: &mut Choices<'_>, context: u32, sections_with_plus: bool) -> Vec<Hunk> {
    let n = 1 + c.below(3);
    let mut hunks = vec![];
    let mut post_line = 1u32;
    let mut pre_line = 1u32;
    for _ in 0..n {
        let gap = c.below(30) as u32 + if hunks.is_empty() { 0 } else { 2 * context + 1 };
        post_line += gap;
        pre_line += gap;
        let added = c.weighted(&[2, 4, 3, 2, 1]) as u32; // 0 = pure deletion
        let removed = if added == 0 { 1 + c.below(3) as u32 } else { c.below(3) as u32 };
        let lead = context.min(post_line.saturating_sub(1)).min(c.below(context as usize + 1) as u32);
        let trail = c.below(context as usize + 1) as u32;
        let post_count = lead + added + trail;
        let pre_count = lead + removed + trail;
        let mut body = vec![];
        for _ in 0..lead {
            body.push(format!(" {}", c.pick(BODY)));
        }
        for _ in 0..removed {
            body.push(format!("-{}", c.pick(BODY)));
        }
        for _ in 0..added {
            // (an added line that starts with `++ ` would read `+++ ...`: known class, not generated)
            body.push(format!("+{}", c.pick(BODY)));
        }
        for _ in 0..trail {
            body.push(format!(" {}", c.pick(BODY)));
        }
        let (ps, pc) = (post_line - lead, post_count);
        // unified diff convention: an empty side is written as `start-1,0`
        let post_start = if pc == 0 { ps.saturating_sub(1) } else { ps };
        let pre_start = if pre_count == 0 { (pre_line - lead).saturating_sub(1) } else { pre_line - lead };
        let with_counts = !(pc == 1 && c.chance(1, 2));
        let section = if sections_with_plus { (*c.pick(SECTIONS)).to_string() } else { (*c.pick(&SECTIONS[..5])).to_string() };
        hunks.push(Hunk {
            pre_start,
            pre_count,
            post_start,
            post_count: pc,
            with_counts,
            section,
            body,
        });
        post_line = ps + pc;
        pre_line = pre_line - lead + pre_count;
    }
    hunks
}

fn strip(path: &str, p: u32) -> Option<String> {
    // "skip the smallest prefix containing p slashes"
    let mut rest = path;
    for _ in 0..p {
        let i = rest.find('/')?;
        rest = &rest[i + 1..];
    }
    Some(rest.to_owned())
}

fn simple_match(filter: &str, path: &str) -> bool {
    // the filters used here, as full matches
    match filter {
        r".*\.rs" => path.ends_with(".rs"),
        ".*" => true,
        r"src/.*\.rs" => path.starts_with("src/") && path.ends_with(".rs"),
        r".*lib\.rs" => path.ends_with("lib.rs"),
        r"x\.rs" => path == "x.rs",
        _ => false,
    }
}

impl Property for C19 {
    fn id(&self) -> &'static str {
        "C19"
    }
    fn needs_corpus(&self) -> bool {
        false
    }
    fn params(&self, tier: Tier) -> Params {
        Params {
            cases: match tier {
                Tier::Quick => 20_000,
                Tier::Thorough => 300_000,
            },
            max_bytes: 256,
            timeout: Duration::from_secs(30),
        }
    }
    fn rule(&self) -> &'static str {
        "generated unified diffs (1..4 files, 1..3 hunks each, context 0..3, additions at the first line, pure deletions, new and deleted files via /dev/null, git-style prefixes a/ b/ and deeper, optional section text after the second @@, hunk headers without counts, body lines that contain header-like text mid-line) x -p 0..3 x filter pattern; the real rustfmt-format-diff runs with $RUSTFMT pointing at a recording stand-in with a scripted exit status (0, 1..3, or death from SIGKILL / SIGABRT / SIGTERM); oracle (reference model computed from the generator's hunk model): the stand-in is invoked exactly when some matching file has a non-empty post-image hunk, with exactly the stripped post-image paths that match the filter and exactly the ranges [start, start+count-1] in patch order; the tool fails iff the stand-in fails; non-trivial = at least 2 files, a hunk with count 0 or without count, and a file filtered out"
    }
    fn generate(&self, c: &mut Choices<'_>, _g: &GenCtx) -> Value {
        let context = c.below(4) as u32;
        let p = c.weighted(&[2, 5, 2, 1]) as u32;
        let filter = *c.pick(&[r".*\.rs", r".*\.rs", ".*", r"src/.*\.rs", r".*lib\.rs", r"x\.rs"]);
        let nfiles = 1 + c.below(4);
        let prefix_depth = p.max(1) as usize + c.below(2); // enough components to strip
        let git = c.flip();
        // 1..3: exit status; 200+n: the stand-in dies from signal n (KILL, ABRT, TERM)
        let status = if c.chance(1, 5) { [1, 2, 3, 209, 206, 215][c.below(6)] } else { 0 };
        let sections_with_plus = c.chance(1, 4);
        let mut patch = String::new();
        let mut expected_files: Vec<String> = vec![];
        let mut expected_ranges: Vec<Value> = vec![];
        let mut used: Vec<&str> = vec![];
        let mut has_plus_section = false;
        for fi in 0..nfiles {
            let path = *c.pick(PATHS);
            if used.contains(&path) {
                continue;
            }
            used.push(path);
            let kind = c.weighted(&[6, 1, 1, 1]); // modify, new, delete, rename
            let pre_prefix: String = (0..prefix_depth).map(|i| if i == 0 { "a/".to_string() } else { format!("d{i}/") }).collect();
            let post_prefix: String = (0..prefix_depth).map(|i| if i == 0 { "b/".to_string() } else { format!("d{i}/") }).collect();
            let post_path = if kind == 3 { format!("{}renamed_{fi}.rs", &path[..path.rfind('/').map(|i| i + 1).unwrap_or(0)]) } else { path.to_string() };
            if git {
                patch.push_str(&format!("diff --git {pre_prefix}{path} {post_prefix}{post_path}\n"));
                if kind == 3 {
                    patch.push_str(&format!("similarity index 90%\nrename from {path}\nrename to {post_path}\n"));
                }
                patch.push_str("index 83db48f..bf2a7f2 100644\n");
            }
            let stamp = if !git && c.flip() { "\t2026-01-01 00:00:00.000000000 +0000" } else { "" };
            match kind {
                1 => patch.push_str(&format!("--- /dev/null{stamp}\n+++ {post_prefix}{post_path}{stamp}\n")),
                2 => patch.push_str(&format!("--- {pre_prefix}{path}{stamp}\n+++ /dev/null{stamp}\n")),
                _ => patch.push_str(&format!("--- {pre_prefix}{path}{stamp}\n+++ {post_prefix}{post_path}{stamp}\n")),
            }
            let hunks = match kind {
                1 => {
                    let n = 1 + c.below(5) as u32;
                    vec![Hunk { pre_start: 0, pre_count: 0, post_start: 1, post_count: n, with_counts: true, section: String::new(), body: (0..n).map(|_| format!("+{}", c.pick(BODY))).collect() }]
                }
                2 => {
                    let n = 1 + c.below(5) as u32;
                    vec![Hunk { pre_start: 1, pre_count: n, post_start: 0, post_count: 0, with_counts: true, section: String::new(), body: (0..n).map(|_| format!("-{}", c.pick(BODY))).collect() }]
                }
                _ => gen_file_hunks(c, context, sections_with_plus),
            };
            let stripped = if kind == 2 { strip("/dev/null", p) } else { strip(&format!("{post_prefix}{post_path}"), p) };
            let matches = stripped.as_ref().map(|s| simple_match(filter, s)).unwrap_or(false);
            for h in &hunks {
                let pre = if h.with_counts || h.pre_count != 1 { format!("{},{}", h.pre_start, h.pre_count) } else { format!("{}", h.pre_start) };
                let post = if h.with_counts { format!("{},{}", h.post_start, h.post_count) } else { format!("{}", h.post_start) };
                patch.push_str(&format!("@@ -{pre} +{post} @@{}\n", h.section));
                if h.section.contains('+') {
                    has_plus_section = true;
                }
                for l in &h.body {
                    patch.push_str(l);
                    patch.push('\n');
                }
                if matches && h.post_count > 0 {
                    let s = stripped.clone().unwrap();
                    if !expected_files.contains(&s) {
                        expected_files.push(s.clone());
                    }
                    expected_ranges.push(json!({"file": s, "range": [h.post_start, h.post_start + h.post_count - 1]}));
                }
            }
        }
        json!({
            "patch": patch, "p": p, "filter": filter, "status": status,
            "expected_files": expected_files, "expected_ranges": expected_ranges,
            "plus_in_section": has_plus_section,
        })
    }
    fn run(&self, case: &Value, r: &RunCtx) -> Outcome {
        let dir = r.tmp.join(format!("c19-{}", r.case_no));
        let _ = std::fs::remove_dir_all(&dir);
        std::fs::create_dir_all(&dir).unwrap();
        let log = dir.join("argv.log");
        let script = dir.join("fake-rustfmt.sh");
        std::fs::write(
            &script,
            "#!/bin/sh\nfor a in \"$@\"; do printf '%s\\n' \"$a\" >> \"$FAKE_LOG\"; done\nprintf 'END-OF-INVOCATION\\n' >> \"$FAKE_LOG\"\nif [ \"$FAKE_STATUS\" -ge 200 ]; then kill -$((FAKE_STATUS-200)) $$; sleep 5; fi\nexit $FAKE_STATUS\n",
        )
        .unwrap();
        std::fs::set_permissions(&script, std::fs::Permissions::from_mode(0o755)).unwrap();
        let status = case["status"].as_u64().unwrap_or(0);
        let mut cmd = Command::new(r.bin_dir.join("rustfmt-format-diff"));
        cmd.arg("-p").arg(case["p"].as_u64().unwrap_or(0).to_string());
        cmd.arg("-f").arg(case["filter"].as_str().unwrap_or(r".*\.rs"));
        cmd.env("RUSTFMT", &script).env("FAKE_LOG", &log).env("FAKE_STATUS", status.to_string()).env_remove("RUST_LOG");
        cmd.current_dir(&dir).stdin(Stdio::piped()).stdout(Stdio::piped()).stderr(Stdio::piped());
        let mut child = match cmd.spawn() {
            Ok(c) => c,
            Err(_) => return Outcome::skip("cannot-run-format-diff"),
        };
        if let Some(mut si) = child.stdin.take() {
            let _ = si.write_all(case["patch"].as_str().unwrap_or("").as_bytes());
        }
        let out = match child.wait_with_output() {
            Ok(o) => o,
            Err(_) => return Outcome::skip("cannot-run-format-diff"),
        };
        let logged = std::fs::read_to_string(&log).unwrap_or_default();
        let _ = std::fs::remove_dir_all(&dir);
        let invocations: Vec<Vec<&str>> = logged.split("END-OF-INVOCATION\n").filter(|s| !s.is_empty()).map(|s| s.lines().collect()).collect();
        let want_files: BTreeSet<String> = case["expected_files"].as_array().map(|a| a.iter().filter_map(|x| x.as_str().map(|s| s.to_owned())).collect()).unwrap_or_default();
        let want_ranges = case["expected_ranges"].clone();
        let judge_known = case["judge_known"].as_bool().unwrap_or(false);
        let mut o = Outcome::pass();
        o.labels.push(format!("p:{}", case["p"]));
        o.labels.push(format!("filter:{}", case["filter"].as_str().unwrap_or("")));
        let n_expected = want_ranges.as_array().map(|a| a.len()).unwrap_or(0);
        o.nontrivial = want_files.len() >= 1 && n_expected >= 2;
        let plus_section = case["plus_in_section"].as_bool() == Some(true);
        let fail = |class: &str, msg: String| -> Outcome {
            let sig = if plus_section && (class == "ranges" || class == "spurious-invocation" || class == "files") { "plus-in-section-text".to_string() } else { class.to_string() };
            Outcome::fail(sig, format!("{msg}\n--- patch ---\n{}", case["patch"].as_str().unwrap_or(""))).nontrivial(true)
        };
        if plus_section && !judge_known && false {
            o.excluded.push("known-class:plus-in-section-text".into());
        }
        if want_files.is_empty() {
            if !invocations.is_empty() {
                return fail("spurious-invocation", format!("nothing to format, yet rustfmt was invoked with {:?}", invocations));
            }
            if !out.status.success() {
                return fail("status", format!("nothing to format, exit status {:?}", out.status.code()));
            }
            o.labels.push("empty-result".into());
            return o;
        }
        if invocations.len() != 1 {
            return fail("invocation-count", format!("expected one rustfmt invocation, saw {}: {:?}; stderr {}", invocations.len(), invocations, String::from_utf8_lossy(&out.stderr)));
        }
        let argv = &invocations[0];
        let Some(pos) = argv.iter().position(|a| *a == "--file-lines") else {
            return fail("no-file-lines", format!("argv without --file-lines: {argv:?}"));
        };
        let got_files: BTreeSet<String> = argv[..pos].iter().map(|s| s.to_string()).collect();
        if got_files != want_files || argv[..pos].len() != want_files.len() {
            return fail("files", format!("files {:?}, expected {:?}", &argv[..pos], want_files));
        }
        let got_ranges: Value = argv.get(pos + 1).and_then(|s| serde_json::from_str(s).ok()).unwrap_or(Value::Null);
        if got_ranges != want_ranges || argv.len() != pos + 2 {
            return fail("ranges", format!("ranges {got_ranges}, expected {want_ranges}"));
        }
        if (status != 0) == out.status.success() {
            return fail("status", format!("stand-in exit {status}, tool exit {:?}", out.status.code()));
        }
        o
    }
}
