//! C16 rustfmt never terminates abnormally.

use std::io::Write;
use std::process::{Command, Stdio};
use std::time::Duration;

use serde_json::{json, Value};

use crate::choices::Choices;
use crate::engine::{GenCtx, Outcome, Params, Property, RunCtx, Tier};
use crate::fmt::format_text;
use crate::gen::conf::{gen_conf, ConfSpace};
use crate::gen::layout::{relayout, Newlines};
use crate::gen::mutate::mutate;
use crate::gen::source::{gen_source, SrcSpace};
use crate::lex::{significant, TK};
use crate::props::common::*;

pub struct C16;

/// Signature of an abnormal termination: the panic call site and the message shape.
pub fn panic_sig(p: &str) -> String {
    // "[report rendering: ]path:line:col: message" -> path:line and the first words of the message
    let (prefix, p) = match p.strip_prefix("report rendering: ") {
        Some(rest) => ("report-rendering:", rest),
        None => ("", p),
    };
    let mut parts = p.splitn(2, ": ");
    let loc = parts.next().unwrap_or("");
    let msg = parts.next().unwrap_or("");
    let loc2: Vec<&str> = loc.rsplitn(2, ':').collect(); // drop column
    let loc = loc2.last().copied().unwrap_or(loc);
    // rustfmt's own sources: independent of where the tree under test is checked out
    let loc = match (loc.contains("/registry/src/"), loc.find("/src/")) {
        (false, Some(i)) if loc.starts_with('/') => &loc[i + 1..],
        _ => loc,
    };
    // dependencies: keep crate directory and file, not the registry path
    let loc = match loc.find("/registry/src/") {
        Some(i) => loc[i + "/registry/src/".len()..].splitn(2, '/').nth(1).unwrap_or(loc),
        None => loc,
    };
    let msg: String = strip_digits(msg).split_whitespace().take(6).collect::<Vec<_>>().join(" ");
    format!("panic:{prefix}{loc}:{msg}")
}

/// Options under which the material a mutation inserted is actually processed.
fn bias_opts(c: &mut Choices<'_>, muts: &[&str], opts: &mut crate::fmt::Opts) {
    let has = |o: &crate::fmt::Opts, k: &str| o.iter().any(|(a, _)| a == k);
    if muts.contains(&"markdown-comment") && c.flip() && !has(opts, "wrap_comments") {
        opts.push(("wrap_comments".into(), "true".into()));
    }
    if muts.contains(&"odd-literal") && c.chance(1, 3) {
        let (k, v) = *c.pick(&[("indent_style", "Visual"), ("float_literal_trailing_zero", "Always"), ("format_strings", "true"), ("hex_literal_case", "Upper")]);
        if !has(opts, k) {
            opts.push((k.into(), v.into()));
        }
    }
}

fn nesting(c: &mut Choices<'_>) -> String {
    // ordinary nesting up to depth 64
    let depth = c.range(8, 64);
    let kind = c.below(6);
    let (open, close, core): (&str, &str, &str) = match kind {
        0 => ("(", ")", "1"),
        1 => ("[", "]", "1"),
        2 => ("{ ", " }", "1"),
        3 => ("f(", ")", "x"),
        4 => ("if a { ", " } else { 0 }", "1"),
        _ => ("Some(", ")", "x"),
    };
    let mut s = String::from("fn nest() { let v = ");
    for _ in 0..depth {
        s.push_str(open);
    }
    s.push_str(core);
    for _ in 0..depth {
        s.push_str(close);
    }
    s.push_str("; }\n");
    s
}

impl Property for C16 {
    fn id(&self) -> &'static str {
        "C16"
    }
    fn params(&self, tier: Tier) -> Params {
        Params {
            cases: match tier {
                Tier::Quick => 16_000,
                Tier::Thorough => 400_000,
            },
            max_bytes: 512,
            timeout: Duration::from_secs(6),
        }
    }
    fn rule(&self) -> &'static str {
        "corpus chunks / generated programs under token-level mutation (delete, duplicate, swap, truncate, delimiter imbalance, splice, non-ASCII incl. wide white space, multi-byte identifiers, odd but lexable literals, markdown doc comments; the options that process the inserted material are switched on half of the time) or arbitrary re-layout, generated import groups (C10's generator, as written or mutated) under the import options, vertically aligned lists with multi-byte names under the alignment thresholds, nesting to depth 64, random configuration with max_width>=20 and >=5*tab_spaces; oracle: Session::format and report rendering return normally in a worker with overflow checks on (a worker death is a violation); non-trivial = the text has >=5 tokens and differs from the corpus text; distinct by case content"
    }
    fn assumptions(&self) -> Vec<&'static str> {
        vec![
            "in-process Session::format + FormatReportFormatter is what the binary executes; replay and thorough also run the real binary and require exit status 0 or 1",
            "hangs are reported as inconclusive, never as violations",
        ]
    }
    fn enum_len(&self, g: &GenCtx) -> usize {
        grid_len(g, 60_000, usize::MAX)
    }
    fn enum_case(&self, g: &GenCtx, i: usize) -> Option<Value> {
        // grid cells under a mutation that is a pure function of the cell
        let n = self.enum_len(g);
        let space = ConfSpace {
            max_extra: 4,
            ..ConfSpace::default()
        };
        let cell = grid_pick(g, "C16", n, i, &space, true);
        let bytes = crate::gen::grid::byte_stream(&format!("{}/mut", cell.cell), 256);
        let mut c = Choices::new(&bytes);
        let (text, muts) = if c.chance(3, 4) {
            let k = 1 + c.below(4);
            mutate(&cell.src.text, &mut c, k)
        } else {
            (cell.src.text.clone(), vec!["relayout"])
        };
        let mut opts = cell.opts.clone();
        bias_opts(&mut c, &muts, &mut opts);
        if c.chance(1, 3) {
            opts.push(("error_on_line_overflow".into(), "true".into()));
            if c.flip() {
                opts.push(("error_on_unformatted".into(), "true".into()));
            }
        }
        Some(json!({"src": text, "opts": opts_to(&opts), "origin": cell.src.origin, "mutations": muts, "cell": cell.cell}))
    }
    fn generate(&self, c: &mut Choices<'_>, g: &GenCtx) -> Value {
        let mode = c.weighted(&[6, 3, 1, 3, 2]);
        if mode == 3 {
            // groups of imports (duplicates, aliases, nested and empty lists) under the
            // granularity / grouping / layout options, as written or after 1..2 token mutations
            let case = crate::props::c10::C10.generate(c, g);
            let src = case["src"].as_str().unwrap_or("").to_string();
            let k = 1 + c.below(2);
            let (text, mut muts) = if c.flip() { mutate(&src, c, k) } else { (src, vec![]) };
            muts.push("import-groups");
            return json!({"src": text, "opts": case["opts"], "origin": "import-groups", "mutations": muts});
        }
        if mode == 4 {
            // vertically aligned lists whose names and values contain multi-byte and
            // double-width characters, under the alignment thresholds
            const NAMES: &[&str] = &["x", "größe", "名前", "a_long_field_name", "é", "данные", "n2"];
            const VALS: &[&str] = &["1", "\"ünï\"", "compute(2)", "'日'", "22", "Vec<Größe>"];
            let kind = c.below(3);
            let n = 1 + c.below(5);
            let mut body = String::new();
            for i in 0..n {
                if i > 0 && c.chance(1, 5) {
                    body.push('\n');
                }
                let name = *c.pick(NAMES);
                match kind {
                    0 => body.push_str(&format!("{name}{i}: {}, ", *c.pick(&["u8", "Vec<Größe>", "Option<u16>"]))),
                    1 => body.push_str(&format!("{name}{}: {}, ", if c.flip() { i.to_string() } else { String::new() }, *c.pick(VALS))),
                    _ => body.push_str(&format!("V{name}{i} = {}, ", 1 + c.below(300))),
                }
                if c.chance(1, 4) {
                    body.push_str("// ünï ✓\n");
                } else if c.flip() {
                    body.push('\n');
                }
            }
            let text = match kind {
                0 => format!("struct Foo {{ {body} }}\n"),
                1 => format!("fn f() {{ let v = Point {{ {body} }}; }}\n"),
                _ => format!("enum E {{ {body} }}\n"),
            };
            let mut opts: crate::fmt::Opts = vec![
                (if kind == 2 { "enum_discrim_align_threshold" } else { "struct_field_align_threshold" }.to_string(), (*c.pick(&["1", "5", "20", "40"])).to_string()),
                ("max_width".into(), (20 + c.below(100)).to_string()),
            ];
            if c.chance(1, 4) {
                opts.push(("hard_tabs".into(), "true".into()));
            }
            if c.chance(1, 4) {
                opts.push(("indent_style".into(), "Visual".into()));
            }
            return json!({"src": text, "opts": opts_to(&opts), "origin": "aligned-lists", "mutations": ["aligned-lists"]});
        }
        let space = ConfSpace {
            max_extra: 4,
            ..ConfSpace::default()
        };
        let (text, origin, muts): (String, String, Vec<&str>) = match mode {
            0 => {
                let s = gen_source(c, g, &SrcSpace::default());
                let n = 1 + c.below(4);
                let (t, m) = mutate(&s.text, c, n);
                (t, s.origin, m)
            }
            1 => {
                let s = gen_source(c, g, &SrcSpace { newlines: true, ..SrcSpace::default() });
                let t = relayout(&s.text, c, 3, Newlines::Lf);
                (t, s.origin, vec!["relayout"])
            }
            _ => (nesting(c), "nesting".into(), vec!["nesting"]),
        };
        let mut opts = gen_conf(c, &space);
        bias_opts(c, &muts, &mut opts);
        if c.chance(1, 3) {
            opts.push(("error_on_line_overflow".into(), "true".into()));
            if c.flip() {
                opts.push(("error_on_unformatted".into(), "true".into()));
            }
        }
        json!({"src": text, "opts": opts_to(&opts), "origin": origin, "mutations": muts})
    }
    fn run(&self, case: &Value, r: &RunCtx) -> Outcome {
        let src = case["src"].as_str().unwrap_or("");
        let opts = opts_from(&case["opts"]);
        let out = format_text(src, &opts);
        let toks = significant(src);
        let mut o = Outcome::pass();
        o.nontrivial = toks.len() >= 5;
        o.labels.extend(conf_labels(&opts));
        for m in case["mutations"].as_array().into_iter().flatten() {
            if let Some(m) = m.as_str() {
                o.labels.push(format!("mut:{m}"));
            }
        }
        if !src.is_ascii() {
            o.labels.push("non-ascii".into());
        }
        if toks.iter().any(|t| t.kind == TK::Unknown || !t.terminated) {
            o.labels.push("lex-error".into());
        }
        o.labels.push(
            if out.has_parsing_errors || out.err.is_some() {
                "result:parse-or-other-error"
            } else if out.has_no_errors {
                "result:clean"
            } else {
                "result:formatted-with-diagnostics"
            }
            .into(),
        );
        if !out.panics_seen.is_empty() && out.escaped_panic.is_none() {
            o.labels.push("contained-panic".into());
        }
        if let Some(p) = &out.escaped_panic {
            let sig = panic_sig(p);
            let mut f = Outcome::fail(sig, format!("panic escaped rustfmt: {p}"));
            f.labels = o.labels;
            f.nontrivial = true;
            return f;
        }
        if r.strict {
            // also run the real binary on the same input
            let mut cmd = Command::new(r.bin_dir.join("rustfmt"));
            let cfg: Vec<String> = opts.iter().map(|(k, v)| format!("{k}={v}")).collect();
            if !cfg.is_empty() {
                cmd.arg("--config").arg(cfg.join(","));
            }
            cmd.stdin(Stdio::piped()).stdout(Stdio::piped()).stderr(Stdio::piped());
            if let Ok(mut child) = cmd.spawn() {
                if let Some(mut si) = child.stdin.take() {
                    let _ = si.write_all(src.as_bytes());
                }
                if let Ok(res) = child.wait_with_output() {
                    let code = res.status.code();
                    let stderr = String::from_utf8_lossy(&res.stderr);
                    if !(code == Some(0) || code == Some(1)) || stderr.contains("panicked at") {
                        let site = stderr
                            .lines()
                            .find(|l| l.contains("panicked at"))
                            .unwrap_or("")
                            .to_owned();
                        let mut f = Outcome::fail(
                            format!("binary-exit:{:?}", code),
                            format!("rustfmt binary: status {:?}; {site}", res.status),
                        );
                        f.nontrivial = true;
                        return f;
                    }
                    o.labels.push("binary-checked".into());
                }
            }
        }
        o
    }
}
