//! C10 Import rewriting preserves what is imported.

use std::collections::BTreeSet;
use std::time::Duration;

use serde_json::{json, Value};

use crate::choices::Choices;
use crate::engine::{GenCtx, Outcome, Params, Property, RunCtx, Tier};
use crate::fmt::{format_text, opt, Opts};
use crate::props::common::*;
use crate::tokcmp::{use_runs, LeafKey};

pub struct C10;

const ROOTS: &[&str] = &["std", "core", "crate", "self", "super", "alpha", "beta", "::gamma", "r#try"];
const SEGS: &[&str] = &["io", "fmt", "mem", "a", "b", "inner", "collections", "r#type", "Write", "Read", "HashMap", "x1", "x10", "Z"];
const VIS: &[&str] = &["", "", "", "pub ", "pub(crate) ", "pub(super) ", "pub(in crate::a) "];
const ATTRS: &[&str] = &["#[cfg(unix)]", "#[cfg(windows)]", "#[allow(unused_imports)]", "#[cfg(feature = \"f\")]", "/// documented import"];

fn tree(c: &mut Choices<'_>, depth: usize) -> String {
    // a use tree below some prefix: path [:: {list} | ::* | as alias]
    let mut s = String::new();
    let n = c.below(3);
    for i in 0..n {
        if i > 0 {
            s.push_str("::");
        }
        s.push_str(*c.pick(SEGS));
    }
    let sep = |s: &String| if s.is_empty() { "" } else { "::" };
    match c.weighted(&[5, 2, 4, 2, 1]) {
        0 => {
            if s.is_empty() {
                s.push_str(*c.pick(SEGS));
            }
        }
        1 => {
            let p = sep(&s);
            s.push_str(p);
            s.push('*');
        }
        2 if depth > 0 => {
            let p = sep(&s);
            s.push_str(p);
            s.push('{');
            // an empty list nested inside a list makes rustfmt import the parent (known finding):
            // only the outermost list may be empty
            let k = if depth == 3 { c.below(5) } else { 1 + c.below(4) };
            for i in 0..k {
                if i > 0 {
                    s.push_str(", ");
                }
                match c.weighted(&[6, 2, 1]) {
                    0 => s.push_str(&tree(c, depth - 1)),
                    1 => {
                        s.push_str("self");
                        if c.chance(1, 3) {
                            s.push_str(" as ");
                            s.push_str(*c.pick(&["this", "me", "_"]));
                        }
                    }
                    _ => s.push_str(*c.pick(SEGS)),
                }
            }
            if k > 0 && c.chance(1, 5) {
                s.push(',');
            }
            s.push('}');
        }
        3 => {
            if s.is_empty() {
                s.push_str(*c.pick(SEGS));
            }
            s.push_str(" as ");
            s.push_str(*c.pick(&["Renamed", "_", "other", "r#fn", "Z9"]));
        }
        _ => {
            if s.is_empty() {
                s.push_str(*c.pick(SEGS));
            }
        }
    }
    s
}

fn gen_decl(c: &mut Choices<'_>, idx: usize, comments: bool) -> (String, Option<String>) {
    let mut s = String::new();
    let mut payload = None;
    if comments && c.chance(1, 6) {
        let p = format!("imp{idx}");
        s.push_str(&format!("// {p}\n"));
        payload = Some(p);
    }
    if c.chance(1, 6) {
        s.push_str(*c.pick(ATTRS));
        s.push('\n');
    }
    s.push_str(*c.pick(VIS));
    s.push_str("use ");
    if c.chance(1, 15) {
        // a brace list directly at the global root
        let n = 2 + c.below(2);
        let entries: Vec<String> = (0..n)
            .map(|k| {
                // (external crate names only: `::self`, `::crate`, `::super` are not paths)
                let root = *c.pick(&["std", "core", "alpha", "beta", "gamma", "serde"]);
                match c.below(3) {
                    0 => root.trim_start_matches("::").to_string(),
                    1 => format!("{} as g{idx}_{k}", root.trim_start_matches("::")),
                    _ => format!("{}::{}", root.trim_start_matches("::"), *c.pick(&["a", "b", "Read"])),
                }
            })
            .collect();
        s.push_str(&format!("::{{{}}}", entries.join(", ")));
    } else if c.chance(1, 12) {
        // an alias on a keyword segment
        s.push_str(*c.pick(&["crate as root_mod", "super as up", "super::super as gp", "crate as _", "super::{self as parent, HashMap}"]));
    } else {
        let root = *c.pick(ROOTS);
        s.push_str(root);
        s.push_str("::");
        s.push_str(&tree(c, 3));
    }
    s.push(';');
    if comments && payload.is_none() && c.chance(1, 10) {
        let p = format!("imp{idx}");
        s.push_str(&format!(" // {p}"));
        payload = Some(p);
    }
    s.push('\n');
    (s, payload)
}

fn leaf_set(run: &[LeafKey]) -> BTreeSet<LeafKey> {
    run.iter().cloned().collect()
}

/// Known defect classes of the unchanged tree (see known_findings.json); the predicate is
/// evaluated on the input's leaves and the configuration.
fn known_class(opts: &Opts, runs: &[Vec<LeafKey>], src: &str) -> Option<&'static str> {
    // an empty list nested inside a list: `use a::{b, c::{}}` gains an import of `a::c`
    {
        let compact: String = src.chars().filter(|c| !c.is_whitespace()).collect();
        if compact.contains(",{}") || compact.contains("{{}") || compact.contains("::{},") || compact.contains("::{}}") {
            return Some("nested-empty-list-imports-parent");
        }
    }
    let gran = opt(opts, "imports_granularity").unwrap_or("Preserve");
    for run in runs {
        // D11: merging into one tree compares a shared segment "except alias" and keeps one alias
        // (under Module / Crate the same happens when the aliased path is a single segment, i.e.
        // the alias sits on the segment every tree of the merge shares)
        if gran == "One" || gran == "Module" || gran == "Crate" {
            for (i, a) in run.iter().enumerate() {
                for (j, b) in run.iter().enumerate() {
                    let single = !a.2.trim_start_matches("::").contains("::");
                    // (a second leaf with the same path counts whatever its alias: `use crate::{self as _};`
                    // next to `use crate as _;` comes out as `crate as _::{self as _, self as _}`)
                    if i != j && a.3.is_some() && (gran == "One" || single) && (b.2 == a.2 || b.2.starts_with(&format!("{}::", a.2))) {
                        return Some("one-merge-loses-alias");
                    }
                }
            }
        }
        // D3: Item granularity removes "duplicates" by path only
        if gran == "Item" {
            for (i, a) in run.iter().enumerate() {
                for b in &run[i + 1..] {
                    if a.2 == b.2 && a.3 == b.3 && (a.0 != b.0 || a.1 != b.1) {
                        return Some("item-dedupe-ignores-attrs-and-visibility");
                    }
                }
            }
        }
    }
    None
}

impl Property for C10 {
    fn id(&self) -> &'static str {
        "C10"
    }
    fn needs_corpus(&self) -> bool {
        false
    }
    fn params(&self, tier: Tier) -> Params {
        Params {
            cases: match tier {
                Tier::Quick => 150_000,
                Tier::Thorough => 2_000_000,
            },
            max_bytes: 512,
            timeout: Duration::from_secs(20),
        }
    }
    fn rule(&self) -> &'static str {
        "generated sequences of 1..8 use declarations (nested lists to depth 4, globs, self/super/crate, aliases, underscore imports, raw identifiers, leading :: (also a brace list directly at ::), visibilities, attributes, comments, exact and near duplicates, blank-line groups, other items in between) x imports_granularity x group_imports x reorder_imports x edition x style edition x width x imports_layout/indent; oracle: an independent token-level reader expands every run of consecutive use items into leaves (attributes, visibility, path, alias; a::{self} = a) and the leaf sets of corresponding runs of input and output must be equal, and every comment payload must survive exactly once; non-trivial = the output's use items differ structurally (merged, split, flattened) from the input's; distinct by case content"
    }
    fn generate(&self, c: &mut Choices<'_>, _g: &GenCtx) -> Value {
        let n = 1 + c.below(8);
        let comments = c.chance(1, 3);
        let mut src = String::new();
        let mut payloads: Vec<String> = vec![];
        let mut decls: Vec<String> = vec![];
        for i in 0..n {
            // duplicates and near duplicates
            let (d, p) = if !decls.is_empty() && c.chance(1, 6) {
                // (the copy carries no comment: payloads are unique)
                let prev: String = decls[c.below(decls.len())]
                    .lines()
                    .filter(|l| !l.trim_start().starts_with("//"))
                    .map(|l| l.split(" // ").next().unwrap_or(l).to_owned() + "\n")
                    .collect();
                match c.below(3) {
                    0 => (prev, None),
                    1 => (format!("{}{}", *c.pick(&["pub ", "pub(crate) ", "#[cfg(test)]\n"]), prev.trim_start_matches("pub ")), None),
                    _ => (prev.replace(';', " as Dup;").replace("* as Dup", "*").replace("} as Dup", "}"), None),
                }
            } else {
                gen_decl(c, i, comments)
            };
            if let Some(p) = p {
                payloads.push(p);
            }
            match c.weighted(&[8, 2, 1]) {
                0 => {}
                1 => src.push('\n'),
                _ => src.push_str(*c.pick(&["fn between() {}\n", "struct Between;\n", "mod between;\n", "const B: u8 = 1;\n"])),
            }
            src.push_str(&d);
            decls.push(d);
        }
        let mut opts: Opts = vec![];
        opts.push(("style_edition".into(), (*c.pick(&["2015", "2024", "2021", "2018", "2027"])).into()));
        opts.push(("edition".into(), (*c.pick(&["2018", "2015", "2021", "2024"])).into()));
        let gran = *c.pick(&["Preserve", "Crate", "Module", "Item", "One"]);
        if gran != "Preserve" {
            opts.push(("imports_granularity".into(), gran.into()));
        }
        let grp = *c.pick(&["Preserve", "StdExternalCrate", "One"]);
        if grp != "Preserve" {
            opts.push(("group_imports".into(), grp.into()));
        }
        if c.chance(1, 4) {
            opts.push(("reorder_imports".into(), "false".into()));
        }
        if c.chance(1, 2) {
            opts.push(("max_width".into(), crate::gen::conf::gen_width(c).to_string()));
        }
        if c.chance(1, 4) {
            opts.push(("imports_layout".into(), (*c.pick(&["Vertical", "Horizontal", "HorizontalVertical"])).into()));
        }
        if c.chance(1, 6) {
            opts.push(("imports_indent".into(), "Visual".into()));
        }
        json!({"src": src, "opts": opts_to(&opts), "payloads": payloads})
    }
    fn run(&self, case: &Value, _r: &RunCtx) -> Outcome {
        let src = case["src"].as_str().unwrap_or("");
        let opts = opts_from(&case["opts"]);
        let judge_known = case["judge_known"].as_bool().unwrap_or(false) || std::env::var("VP_JUDGE_KNOWN").is_ok();
        let ed2015 = opt(&opts, "edition").map(|e| e == "2015").unwrap_or(true);
        let Some(in_runs) = use_runs(src, ed2015) else {
            return Outcome::skip("input-imports-not-understood");
        };
        let r = format_text(src, &opts);
        if !r.clean() {
            return Outcome::skip(if r.has_parsing_errors { "parse-error" } else { "reports-error" });
        }
        let mut o = Outcome::pass();
        for (k, v) in &opts {
            if matches!(k.as_str(), "imports_granularity" | "group_imports" | "reorder_imports" | "style_edition" | "edition") {
                o.labels.push(format!("{k}:{v}"));
            }
        }
        let class = known_class(&opts, &in_runs, src);
        if let Some(cl) = class {
            if !judge_known {
                o.excluded.push(format!("known-class:{cl}"));
                return o;
            }
        }
        let Some(out_runs) = use_runs(&r.text, ed2015) else {
            return Outcome::fail(class.unwrap_or("output-imports-not-understood"), format!("the imports of the output cannot be read\n{src}\n--->\n{}", r.text)).nontrivial(true);
        };
        let fail = |kind: &str, msg: String| -> Outcome {
            let sig = match class {
                Some(cl) => cl.to_string(),
                None => {
                    let gran = opt(&opts, "imports_granularity").unwrap_or("Preserve");
                    format!("{kind}:granularity={gran}")
                }
            };
            Outcome::fail(sig, msg).nontrivial(true)
        };
        if in_runs.len() != out_runs.len() {
            return fail(
                "runs",
                format!("{} runs of imports in the input, {} in the output (an import moved across another item, or a run vanished)\n{src}\n--->\n{}", in_runs.len(), out_runs.len(), r.text),
            );
        }
        for (a, b) in in_runs.iter().zip(out_runs.iter()) {
            let (sa, sb) = (leaf_set(a), leaf_set(b));
            if sa != sb {
                let lost: Vec<_> = sa.difference(&sb).collect();
                let added: Vec<_> = sb.difference(&sa).collect();
                let kind = if !lost.is_empty() && !added.is_empty() { "changed" } else if !lost.is_empty() { "lost" } else { "added" };
                return fail(kind, format!("imports {kind}: lost {lost:?}, added {added:?}\n{src}\n--->\n{}", r.text));
            }
        }
        // comments survive exactly once (a comment attached to an import with an empty list goes
        // with it: that is C03's subject, not an import that was merged across a comment)
        let compact: String = src.chars().filter(|c| !c.is_whitespace()).collect();
        let has_empty_import = compact.contains("::{};") || compact.contains("use{};");
        for p in case["payloads"].as_array().into_iter().flatten() {
            if has_empty_import {
                o.labels.push("comment-check-skipped:empty-import".into());
                break;
            }
            if let Some(p) = p.as_str() {
                let n = r.text.matches(&format!("// {p}")).count();
                if n != 1 {
                    // known class (KF-C10-1): Item granularity removes a later import with the
                    // same path and alias whatever is attached to it, here a comment
                    let gran = opt(&opts, "imports_granularity").unwrap_or("Preserve");
                    let dup = in_runs.iter().any(|run| run.iter().enumerate().any(|(i, a)| run[i + 1..].iter().any(|b| a.2 == b.2 && a.3 == b.3)));
                    if gran == "Item" && dup && n == 0 {
                        if !judge_known {
                            o.excluded.push("known-class:item-dedupe-drops-commented-duplicate".into());
                            continue;
                        }
                        return Outcome::fail("item-dedupe-drops-commented-duplicate", format!("comment `{p}` went with the duplicate import it was attached to\n{src}\n--->\n{}", r.text)).nontrivial(true);
                    }
                    return fail("comment", format!("comment `{p}` occurs {n} times in the output\n{src}\n--->\n{}", r.text));
                }
            }
        }
        // structural change?
        let shape = |t: &str| -> Vec<String> {
            let mut v: Vec<String> = t.lines().filter(|l| l.trim_start().contains("use ")).map(|l| l.split_whitespace().collect::<Vec<_>>().join(" ")).collect();
            v.sort();
            v
        };
        o.nontrivial = shape(src) != shape(&r.text);
        if o.nontrivial {
            o.labels.push("restructured".into());
        }
        o
    }
}
