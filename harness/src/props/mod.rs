use std::sync::Arc;

use crate::engine::Property;

pub mod c01;
pub mod c02;
pub mod c03;
pub mod c05;
pub mod c06;
pub mod c08;
pub mod c09;
pub mod c10;
pub mod c11;
pub mod c12;
pub mod c04;
pub mod c07;
pub mod c13;
pub mod c14;
pub mod c15;
pub mod c16;
pub mod c17;
pub mod c18;
pub mod c19;
pub mod c20;
pub mod common;

pub fn all() -> Vec<Arc<dyn Property>> {
    vec![Arc::new(c01::C01), Arc::new(c02::C02), Arc::new(c03::C03), Arc::new(c04::C04), Arc::new(c05::C05), Arc::new(c06::C06), Arc::new(c07::C07), Arc::new(c08::C08), Arc::new(c09::C09), Arc::new(c10::C10), Arc::new(c11::C11), Arc::new(c12::C12), Arc::new(c13::C13), Arc::new(c14::C14), Arc::new(c15::C15), Arc::new(c16::C16), Arc::new(c17::C17), Arc::new(c18::C18), Arc::new(c19::C19), Arc::new(c20::C20)]
}

pub fn by_id(id: &str) -> Option<Arc<dyn Property>> {
    all().into_iter().find(|p| p.id() == id)
}
