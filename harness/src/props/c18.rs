//! C18 cargo fmt formats the right targets with the right editions.

use std::collections::{BTreeMap, BTreeSet};
use std::os::unix::fs::PermissionsExt;
use std::path::Path;
use std::process::{Command, Stdio};
use std::time::Duration;

use serde::{Deserialize, Serialize};
use serde_json::{json, Value};

use crate::choices::Choices;
use crate::engine::{GenCtx, Outcome, Params, Property, RunCtx, Tier};

pub struct C18;

#[derive(Debug, Clone, Serialize, Deserialize)]
struct Target {
    /// path relative to the package directory
    path: String,
    /// manifest section: lib, bin, example, test, bench, build (auto-discovered when `explicit` is false)
    kind: String,
    explicit: bool,
    edition: Option<String>,
}

#[derive(Debug, Clone, Serialize, Deserialize)]
struct Package {
    name: String,
    /// directory relative to the case root
    dir: String,
    edition: Option<String>,
    targets: Vec<Target>,
    /// names of packages this one depends on through `path = ".."`
    deps: Vec<String>,
    member: bool,
}

#[derive(Debug, Clone, Serialize, Deserialize)]
struct Ws {
    virtual_root: bool,
    packages: Vec<Package>,
}

const EDITIONS: &[&str] = &["2015", "2018", "2021", "2024"];

fn gen_package(c: &mut Choices<'_>, name: &str, dir: &str, member: bool) -> Package {
    let edition = if c.chance(1, 5) { None } else { Some((*c.pick(EDITIONS)).to_string()) };
    let mut targets = vec![];
    let has_lib = c.chance(2, 3);
    if has_lib {
        targets.push(Target { path: "src/lib.rs".into(), kind: "lib".into(), explicit: false, edition: None });
    }
    if !has_lib || c.chance(1, 2) {
        targets.push(Target { path: "src/main.rs".into(), kind: "bin".into(), explicit: false, edition: None });
    }
    if c.chance(1, 3) {
        let ed = if c.chance(1, 2) { Some((*c.pick(EDITIONS)).to_string()) } else { None };
        targets.push(Target { path: "src/tool/cli.rs".into(), kind: "bin".into(), explicit: true, edition: ed });
    }
    if c.chance(1, 3) {
        targets.push(Target { path: "examples/demo.rs".into(), kind: "example".into(), explicit: false, edition: None });
    }
    if c.chance(1, 3) {
        let ed = if c.chance(1, 3) { Some((*c.pick(EDITIONS)).to_string()) } else { None };
        targets.push(Target { path: "tests/integration.rs".into(), kind: "test".into(), explicit: ed.is_some(), edition: ed });
    }
    if c.chance(1, 4) {
        targets.push(Target { path: "benches/speed.rs".into(), kind: "bench".into(), explicit: false, edition: None });
    }
    if c.chance(1, 4) {
        targets.push(Target { path: "build.rs".into(), kind: "build".into(), explicit: false, edition: None });
    }
    if c.chance(1, 5) {
        // a file shared by two targets (an explicit example on the lib / bin root): passed once
        if let Some(t) = targets.iter().find(|t| t.edition.is_none() && matches!(t.kind.as_str(), "lib" | "bin") && !t.explicit).cloned() {
            targets.push(Target { path: t.path, kind: "example".into(), explicit: true, edition: None });
        }
    }
    Package { name: name.into(), dir: dir.into(), edition, targets, deps: vec![], member }
}

fn write_ws(root: &Path, ws: &Ws) {
    let _ = std::fs::remove_dir_all(root);
    let members: Vec<&Package> = ws.packages.iter().filter(|p| p.member && !p.dir.is_empty()).collect();
    let excluded: Vec<String> = ws.packages.iter().filter(|p| !p.member && !p.dir.starts_with("..")).map(|p| format!("\"{}\"", p.dir)).collect();
    let exclude_line = if excluded.is_empty() { String::new() } else { format!("exclude = [{}]\n", excluded.join(", ")) };
    for p in &ws.packages {
        let dir = if p.dir.is_empty() { root.to_path_buf() } else { root.join(&p.dir) };
        let mut m = String::new();
        m.push_str(&format!("[package]\nname = \"{}\"\nversion = \"0.1.0\"\n", p.name));
        if let Some(e) = &p.edition {
            m.push_str(&format!("edition = \"{e}\"\n"));
        }
        if p.targets.iter().any(|t| t.kind == "build") {
            m.push_str("build = \"build.rs\"\n");
        }
        m.push('\n');
        for t in &p.targets {
            if t.explicit {
                let sect = match t.kind.as_str() {
                    "bin" => "[[bin]]",
                    "test" => "[[test]]",
                    "example" => "[[example]]",
                    "bench" => "[[bench]]",
                    _ => continue,
                };
                let tname = Path::new(&t.path).file_stem().unwrap().to_string_lossy().into_owned();
                m.push_str(&format!("{sect}\nname = \"{tname}\"\npath = \"{}\"\n", t.path));
                if let Some(e) = &t.edition {
                    m.push_str(&format!("edition = \"{e}\"\n"));
                }
                m.push('\n');
            }
        }
        if !p.deps.is_empty() {
            m.push_str("[dependencies]\n");
            for d in &p.deps {
                let dp = ws.packages.iter().find(|x| x.name == *d).unwrap();
                // absolute path of the dependency's directory (normalised)
                let mut dpath = std::path::PathBuf::new();
                for comp in (if dp.dir.is_empty() { root.to_path_buf() } else { root.join(&dp.dir) }).components() {
                    match comp {
                        std::path::Component::ParentDir => {
                            dpath.pop();
                        }
                        other => dpath.push(other.as_os_str()),
                    }
                }
                m.push_str(&format!("{} = {{ path = \"{}\" }}\n", d, dpath.display()));
            }
        }
        if p.dir.is_empty() && !ws.virtual_root {
            m.push_str(&format!("\n[workspace]\nmembers = [{}]\n{exclude_line}", members.iter().map(|x| format!("\"{}\"", x.dir)).collect::<Vec<_>>().join(", ")));
        }
        let _ = std::fs::create_dir_all(&dir);
        let _ = std::fs::write(dir.join("Cargo.toml"), m);
        for t in &p.targets {
            let fp = dir.join(&t.path);
            let _ = std::fs::create_dir_all(fp.parent().unwrap());
            let body = if t.kind == "lib" { "pub fn  f ( ) { }\n" } else { "fn main ( ) { }\n" };
            let _ = std::fs::write(fp, body);
        }
    }
    if ws.virtual_root {
        let m = format!("[workspace]\nmembers = [{}]\n{exclude_line}", members.iter().map(|x| format!("\"{}\"", x.dir)).collect::<Vec<_>>().join(", "));
        let _ = std::fs::create_dir_all(root);
        let _ = std::fs::write(root.join("Cargo.toml"), m);
    }
}

impl Property for C18 {
    fn id(&self) -> &'static str {
        "C18"
    }
    fn needs_corpus(&self) -> bool {
        false
    }
    fn params(&self, tier: Tier) -> Params {
        Params {
            cases: match tier {
                Tier::Quick => 1_600,
                Tier::Thorough => 20_000,
            },
            max_bytes: 256,
            timeout: Duration::from_secs(120),
        }
    }
    fn rule(&self) -> &'static str {
        "generated workspaces (virtual or rooted, 1..4 members, lib / bin / explicit [[bin]] / example / test / bench / build-script targets, a source file shared by two targets of one package or (through `../`) of two packages, package and per-target editions incl. the default 2015, path dependencies inside the workspace, to packages outside it and to a package below the workspace root that workspace.exclude keeps out of the workspace, transitively) x selection (current directory, -p names, --all, --manifest-path of a member spelled absolutely / relatively with `..` / with `./` / through a symlink, an unknown -p, a bad --manifest-path) x working directory (workspace root, a member's directory, a member's src/ subdirectory) x pass-through arguments, --check and --message-format; the real cargo-fmt runs with $RUSTFMT pointing at a recording stand-in whose k-th invocation fails on request; oracle (model computed from the generated manifests): the union of the files passed equals the root source files of all targets of the selected packages, every file is passed once, every invocation carries the edition of its targets and the pass-through arguments in order, cargo-fmt fails iff a stand-in invocation failed, and an unknown package or unusable manifest is an error before any invocation; non-trivial = at least two editions among the selected targets and a path dependency or explicit target; distinct by case content"
    }
    fn assumptions(&self) -> Vec<&'static str> {
        vec![
            "`cargo metadata --offline` of the sandbox resolves the generated path-only workspaces",
            "at the root of a rooted workspace without flags the tool formats all members; the statement's 'current package' is not judged there (labelled)",
        ]
    }
    fn generate(&self, c: &mut Choices<'_>, _g: &GenCtx) -> Value {
        let virtual_root = c.chance(1, 3);
        let n = 1 + c.below(4);
        let mut packages = vec![];
        if !virtual_root {
            packages.push(gen_package(c, "rootpkg", "", true));
        }
        for i in 0..n {
            if !virtual_root && i == 0 {
                continue;
            }
            let dir = if c.chance(1, 4) { format!("crates/m{i}") } else { format!("m{i}") };
            packages.push(gen_package(c, &format!("member{i}"), &dir, true));
        }
        // packages outside the workspace, reachable through path dependencies only
        let n_out = c.below(3);
        for i in 0..n_out {
            packages.push(gen_package(c, &format!("outside{i}"), &format!("../outside{i}"), false));
        }
        // a package below the workspace root that is not a member (listed in workspace.exclude),
        // reachable through a path dependency only
        if c.chance(1, 4) {
            packages.push(gen_package(c, "excluded0", "vendor/ex0", false));
        }
        // a source file shared by targets of two packages, reached through `../` (cargo reports
        // such paths un-normalised): it must still be passed once
        let tops: Vec<usize> = packages.iter().enumerate().filter(|(_, p)| p.member && !p.dir.is_empty() && !p.dir.contains('/')).map(|(i, _)| i).collect();
        if tops.len() >= 2 && c.chance(1, 6) {
            for &i in tops.iter().take(2) {
                packages[i].targets.push(Target { path: "../shared/common.rs".into(), kind: "example".into(), explicit: true, edition: Some("2021".into()) });
            }
        }
        // dependencies: a member may depend on later members and on outside packages; outside
        // packages may depend on later outside packages (transitive)
        let names: Vec<(String, bool)> = packages.iter().map(|p| (p.name.clone(), p.member)).collect();
        for i in 0..packages.len() {
            for j in (i + 1)..packages.len() {
                if c.chance(1, 4) && (packages[i].member || !names[j].1) {
                    let d = names[j].0.clone();
                    packages[i].deps.push(d);
                }
            }
        }
        // outside packages nobody depends on would be unreachable: attach them to the first member
        for j in 0..packages.len() {
            if !packages[j].member && !packages.iter().any(|p| p.deps.contains(&names[j].0)) {
                let d = names[j].0.clone();
                packages[0].deps.push(d);
            }
        }
        let selection = match c.weighted(&[4, 3, 3, 1, 1, 3]) {
            5 => {
                // --manifest-path naming a member's manifest, spelled in several valid ways
                let members: Vec<&Package> = packages.iter().filter(|p| p.member).collect();
                let target = members[c.below(members.len())].dir.clone();
                json!({"kind": "manifest", "target": target, "spelling": *c.pick(&["absolute", "relative", "dot-relative", "via-symlink"])})
            }
            0 => json!({"kind": "current"}),
            1 => {
                let members: Vec<&Package> = packages.iter().filter(|p| p.member).collect();
                let k = 1 + c.below(members.len().min(2));
                let mut names: Vec<String> = vec![];
                for _ in 0..k {
                    let n = members[c.below(members.len())].name.clone();
                    if !names.contains(&n) {
                        names.push(n);
                    }
                }
                json!({"kind": "packages", "names": names})
            }
            2 => json!({"kind": "all"}),
            3 => json!({"kind": "unknown-package"}),
            _ => json!({"kind": "bad-manifest"}),
        };
        let members: Vec<&Package> = packages.iter().filter(|p| p.member).collect();
        let cwd = match c.weighted(&[3, 3, 1]) {
            0 => String::new(),
            1 => members[c.below(members.len())].dir.clone(),
            _ => {
                // a subdirectory of a member (every package has a src/ directory)
                let d = members[c.below(members.len())].dir.clone();
                if d.is_empty() { "src".to_string() } else { format!("{d}/src") }
            }
        };
        let passthrough: Vec<&str> = match c.below(4) {
            0 => vec![],
            1 => vec!["--config", "max_width=80"],
            2 => vec!["-v"],
            _ => vec!["--config-path", "nowhere.toml", "--color", "never"],
        };
        let flag = *c.pick(&["", "", "--check", "--message-format=short", "--message-format=json"]);
        let fail_at = if c.chance(1, 3) { Some(c.below(3)) } else { None };
        json!({"ws": Ws { virtual_root, packages }, "selection": selection, "cwd": cwd, "passthrough": passthrough, "flag": flag, "fail_at": fail_at})
    }
    fn run(&self, case: &Value, r: &RunCtx) -> Outcome {
        let Ok(ws) = serde_json::from_value::<Ws>(case["ws"].clone()) else {
            return Outcome::skip("bad-case");
        };
        let base = r.tmp.join(format!("c18-{}", r.case_no));
        let root = base.join("ws");
        write_ws(&root, &ws);
        let log = base.join("argv.log");
        let counter = base.join("count");
        let script = base.join("fake-rustfmt.sh");
        let fail_at: i64 = case["fail_at"].as_i64().unwrap_or(-1);
        std::fs::write(
            &script,
            "#!/bin/sh\nn=$(cat \"$FAKE_COUNT\" 2>/dev/null || echo 0)\necho $((n+1)) > \"$FAKE_COUNT\"\nfor a in \"$@\"; do printf '%s\\n' \"$a\" >> \"$FAKE_LOG\"; done\nprintf 'END-OF-INVOCATION\\n' >> \"$FAKE_LOG\"\nif [ \"$n\" = \"$FAKE_FAIL_AT\" ]; then exit 3; fi\nexit 0\n",
        )
        .unwrap();
        std::fs::set_permissions(&script, std::fs::Permissions::from_mode(0o755)).unwrap();
        let cwd_rel = case["cwd"].as_str().unwrap_or("");
        let cwd = if cwd_rel.is_empty() { root.clone() } else { root.join(cwd_rel) };
        let mut cmd = Command::new(r.bin_dir.join("cargo-fmt"));
        let sel = &case["selection"];
        let kind = sel["kind"].as_str().unwrap_or("current");
        match kind {
            "packages" => {
                for n in sel["names"].as_array().into_iter().flatten() {
                    cmd.arg("-p").arg(n.as_str().unwrap_or(""));
                }
            }
            "all" => {
                cmd.arg("--all");
            }
            "unknown-package" => {
                cmd.arg("-p").arg("no_such_package");
            }
            "bad-manifest" => {
                cmd.arg("--manifest-path").arg(root.join("missing/Cargo.toml"));
            }
            "manifest" => {
                let target = sel["target"].as_str().unwrap_or("");
                let tdir = if target.is_empty() { root.clone() } else { root.join(target) };
                // relative spelling from the working directory: up to the workspace root, then down
                let ups = if cwd_rel.is_empty() { 0 } else { cwd_rel.split('/').count() };
                let rel = format!("{}{}{}Cargo.toml", "../".repeat(ups), target, if target.is_empty() { "" } else { "/" });
                let arg = match sel["spelling"].as_str().unwrap_or("absolute") {
                    "relative" => rel,
                    "dot-relative" => format!("./{rel}"),
                    "via-symlink" => {
                        let link = base.join("link-to-package");
                        let _ = std::os::unix::fs::symlink(&tdir, &link);
                        link.join("Cargo.toml").to_string_lossy().into_owned()
                    }
                    _ => tdir.join("Cargo.toml").to_string_lossy().into_owned(),
                };
                cmd.arg("--manifest-path").arg(arg);
            }
            _ => {}
        }
        let flag = case["flag"].as_str().unwrap_or("");
        if !flag.is_empty() {
            cmd.arg(flag);
        }
        let passthrough: Vec<String> = case["passthrough"].as_array().map(|a| a.iter().filter_map(|x| x.as_str().map(|s| s.to_owned())).collect()).unwrap_or_default();
        if !passthrough.is_empty() {
            cmd.arg("--");
            cmd.args(&passthrough);
        }
        cmd.current_dir(&cwd)
            .env("RUSTFMT", &script)
            .env("FAKE_LOG", &log)
            .env("FAKE_COUNT", &counter)
            .env("FAKE_FAIL_AT", fail_at.to_string())
            .env("CARGO_NET_OFFLINE", "true")
            .env("CARGO_TARGET_DIR", base.join("target"))
            .stdin(Stdio::null())
            .stdout(Stdio::piped())
            .stderr(Stdio::piped());
        let out = match cmd.output() {
            Ok(o) => o,
            Err(_) => {
                let _ = std::fs::remove_dir_all(&base);
                return Outcome::skip("cannot-run-cargo-fmt");
            }
        };
        let logged = std::fs::read_to_string(&log).unwrap_or_default();
        let canon_root = root.canonicalize().unwrap_or(root.clone());
        let _ = std::fs::remove_dir_all(&base);
        let invocations: Vec<Vec<String>> = logged.split("END-OF-INVOCATION\n").filter(|s| !s.is_empty()).map(|s| s.lines().map(|l| l.to_owned()).collect()).collect();
        let stderr = String::from_utf8_lossy(&out.stderr).into_owned();
        let mut o = Outcome::pass();
        o.labels.push(format!("selection:{kind}"));
        o.labels.push(if ws.virtual_root { "virtual-root".into() } else { "rooted".into() });
        let describe = || -> String { format!("selection {sel} cwd {cwd_rel:?} flag {flag:?} passthrough {passthrough:?} fail_at {fail_at}\nworkspace {}\ninvocations {invocations:?}\nstderr {}", serde_json::to_string(&ws).unwrap_or_default(), stderr.chars().take(500).collect::<String>()) };
        let fail = |class: &str, msg: String| -> Outcome { Outcome::fail(class.to_string(), format!("{msg}\n{}", describe())).nontrivial(true) };
        if stderr.contains("failed to parse manifest") || stderr.contains("error: failed to load manifest") {
            return Outcome::skip("cargo-metadata-rejected-workspace");
        }
        // ---- the model: selected packages --------------------------------------------------------
        let by_name: BTreeMap<&str, &Package> = ws.packages.iter().map(|p| (p.name.as_str(), p)).collect();
        let selected: Option<Vec<&Package>> = match kind {
            "unknown-package" | "bad-manifest" => None,
            "manifest" => {
                let target = sel["target"].as_str().unwrap_or("");
                if target.is_empty() && !ws.virtual_root {
                    o.labels.push("rooted-root-current:not-judged".into());
                    return o;
                }
                o.labels.push(format!("manifest-path:{}", sel["spelling"].as_str().unwrap_or("")));
                Some(ws.packages.iter().filter(|p| p.dir == target).collect())
            }
            "packages" => Some(sel["names"].as_array().into_iter().flatten().filter_map(|n| by_name.get(n.as_str().unwrap_or("")).copied()).collect()),
            "all" => {
                // members plus every package reachable through path dependencies
                let mut seen: BTreeSet<&str> = BTreeSet::new();
                let mut stack: Vec<&Package> = ws.packages.iter().filter(|p| p.member).collect();
                let mut res = vec![];
                while let Some(p) = stack.pop() {
                    if !seen.insert(p.name.as_str()) {
                        continue;
                    }
                    res.push(p);
                    for d in &p.deps {
                        if let Some(q) = by_name.get(d.as_str()) {
                            stack.push(q);
                        }
                    }
                }
                Some(res)
            }
            _ => {
                if cwd_rel.is_empty() {
                    if ws.virtual_root {
                        Some(ws.packages.iter().filter(|p| p.member).collect())
                    } else {
                        // rooted workspace root: cargo-fmt formats every member; the statement says
                        // "the current package": not judged
                        o.labels.push("rooted-root-current:not-judged".into());
                        return o;
                    }
                } else if let Some(p) = ws.packages.iter().find(|p| p.dir == cwd_rel) {
                    Some(vec![p])
                } else {
                    // a strict subdirectory of a package: that package is the current one
                    let owner = ws.packages.iter().filter(|p| p.member && (p.dir.is_empty() || cwd_rel.starts_with(&format!("{}/", p.dir)))).max_by_key(|p| p.dir.len());
                    let n_members = ws.packages.iter().filter(|p| p.member).count();
                    match owner {
                        Some(p) if n_members == 1 => Some(vec![p]),
                        Some(p) => {
                            // known class: with more than one workspace member cargo-fmt only
                            // recognises the current package when the working directory holds its manifest
                            let judge_known = case["judge_known"].as_bool().unwrap_or(false);
                            if !judge_known {
                                o.excluded.push("known-class:subdirectory-of-a-member".into());
                                return o;
                            }
                            if invocations.is_empty() && !out.status.success() {
                                return Outcome::fail("current-package-not-found-from-subdirectory", format!("cargo fmt from `{cwd_rel}` (inside package `{}`) fails instead of formatting the current package\n{}", p.name, describe())).nontrivial(true);
                            }
                            Some(vec![p])
                        }
                        None => return Outcome::skip("cwd-outside-every-package"),
                    }
                }
            }
        };
        let Some(selected) = selected else {
            // error before anything is formatted
            if !invocations.is_empty() {
                return fail("invocation-despite-error", "rustfmt was invoked although the selection is invalid".into());
            }
            if out.status.success() {
                return fail("no-error-for-invalid-selection", "cargo-fmt succeeded for an invalid selection".into());
            }
            o.labels.push("error-case".into());
            o.nontrivial = true;
            return o;
        };
        // expected: file -> edition
        let mut want: BTreeMap<String, String> = BTreeMap::new();
        for p in &selected {
            let pdir = if p.dir.is_empty() { canon_root.clone() } else { canon_root.join(&p.dir) };
            for t in &p.targets {
                // cargo (edition 2015 packages): declaring a target of some kind by hand turns
                // the automatic discovery of that kind off
                let pkg_2015 = p.edition.as_deref().unwrap_or("2015") == "2015";
                if pkg_2015 && !t.explicit && t.kind != "lib" && t.kind != "build" && p.targets.iter().any(|x| x.explicit && x.kind == t.kind) {
                    continue;
                }
                let ed = t.edition.clone().or(p.edition.clone()).unwrap_or_else(|| "2015".into());
                // normalise `..` components the way a canonical path would
                let mut path = std::path::PathBuf::new();
                for comp in pdir.join(&t.path).components() {
                    match comp {
                        std::path::Component::ParentDir => {
                            path.pop();
                        }
                        other => path.push(other.as_os_str()),
                    }
                }
                want.insert(path.to_string_lossy().into_owned(), ed);
            }
        }
        let editions: BTreeSet<&String> = want.values().collect();
        o.nontrivial = editions.len() >= 2 && (selected.iter().any(|p| !p.deps.is_empty()) || selected.iter().any(|p| p.targets.iter().any(|t| t.explicit)));
        // pass-through arguments as rustfmt should see them
        let mut want_args: Vec<String> = passthrough.clone();
        match flag {
            "--check" => want_args.push("--check".into()),
            "--message-format=short" => want_args.push("-l".into()),
            "--message-format=json" => {
                want_args.push("--emit".into());
                want_args.push("json".into());
            }
            _ => {}
        }
        let mut got: BTreeMap<String, String> = BTreeMap::new();
        for inv in &invocations {
            let Some(pos) = inv.iter().position(|a| a == "--edition") else {
                return fail("no-edition-flag", format!("invocation without --edition: {inv:?}"));
            };
            let ed = inv.get(pos + 1).cloned().unwrap_or_default();
            let rest: Vec<String> = inv[pos + 2..].to_vec();
            if rest != want_args {
                return fail("pass-through-arguments", format!("arguments after the edition are {rest:?}, expected {want_args:?}"));
            }
            for f in &inv[..pos] {
                if got.insert(f.clone(), ed.clone()).is_some() {
                    return fail("file-passed-twice", format!("{f} was passed more than once"));
                }
            }
        }
        let expected_invocations = editions.len();
        let failed_invocation = fail_at >= 0 && (fail_at as usize) < expected_invocations;
        if got != want {
            let missing: Vec<&String> = want.keys().filter(|k| !got.contains_key(*k)).collect();
            let extra: Vec<&String> = got.keys().filter(|k| !want.contains_key(*k)).collect();
            let wrong: Vec<(&String, &String, &String)> = want.iter().filter_map(|(k, v)| got.get(k).filter(|g| *g != v).map(|g| (k, v, g))).collect();
            let class = if !wrong.is_empty() { "wrong-edition" } else if !missing.is_empty() { "target-not-formatted" } else { "unexpected-file-formatted" };
            return fail(class, format!("missing {missing:?}, unexpected {extra:?}, wrong edition (file, expected, got) {wrong:?}"));
        }
        if failed_invocation == out.status.success() {
            return fail("exit-status", format!("a stand-in invocation failed = {failed_invocation}, cargo-fmt exit {:?}", out.status.code()));
        }
        o
    }
}
