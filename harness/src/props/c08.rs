//! C08 Emitted text obeys the whitespace and newline discipline.

use std::time::Duration;

use serde_json::{json, Value};

use crate::choices::Choices;
use crate::engine::{GenCtx, Outcome, Params, Property, RunCtx, Tier};
use crate::fmt::{format_text, opt, opt_bool, opt_usize, Opts};
use crate::gen::conf::{gen_conf, ConfSpace};
use crate::gen::layout::{relayout, Newlines};
use crate::gen::prog::{gen_prog, render, ProgSpace, RenderOpts};
use crate::lex::{lex, TK};
use crate::parse::{list_gaps, skip_ranges, GapKind};
use crate::props::common::*;

pub struct C08;

/// Failure classes recorded as known findings (class predicates on the input/configuration);
/// they are judged only by their replay files (`judge_known`).
const KNOWN_CLASSES: &[&str] = &[
    "auto-crlf-first",
    "starts-with-blank-line/lower-bound",
    "starts-with-blank-line/indented-first-token",
    "removed-empty-item-residue",
    "blank-lines/upper-bound-0",
];

/// Does the input contain an item or attribute that rustfmt drops entirely (an import with an
/// empty list, an empty derive)?
fn has_removed_item(src: &str) -> bool {
    let toks: Vec<_> = lex(src).into_iter().filter(|t| !t.kind.is_trivia()).collect();
    for i in 0..toks.len() {
        let t = |k: usize| toks.get(k).map(|x| x.text(src)).unwrap_or("");
        if t(i) == "{" && t(i + 1) == "}" && i >= 1 && (t(i - 1) == ":" || t(i - 1) == "use") {
            return true;
        }
        if t(i) == "derive" && t(i + 1) == "(" && t(i + 2) == ")" {
            return true;
        }
    }
    false
}

pub const SPACE: ConfSpace = ConfSpace {
    exclude: &[],
    // Visual indentation aligns with spaces by design under hard_tabs: kept in, the oracle
    // accepts alignment spaces after tabs.
    exclude_values: &[],
    allow_2027: true,
    min_edition: "2015",
    max_extra: 3,
    whitespace_axes: true,
};

fn first_terminator_is_crlf(s: &str) -> Option<bool> {
    let i = s.find('\n')?;
    Some(i > 0 && s.as_bytes()[i - 1] == b'\r')
}

/// Byte ranges of macro invocation bodies `name!(..)`, `name![..]`, `name!{..}` and of
/// `macro_rules! name {..}` definitions (lexical).
fn macro_ranges(src: &str) -> Vec<(usize, usize)> {
    let toks: Vec<_> = lex(src).into_iter().filter(|t| !t.kind.is_trivia()).collect();
    let mut out = vec![];
    let mut i = 0;
    while i + 2 < toks.len() {
        if matches!(toks[i].kind, TK::Ident | TK::RawIdent) && toks[i + 1].text(src) == "!" {
            // optional name (macro_rules! foo)
            let mut j = i + 2;
            if j < toks.len() && matches!(toks[j].kind, TK::Ident | TK::RawIdent) {
                j += 1;
            }
            if j < toks.len() && toks[j].kind == TK::OpenDelim {
                let mut depth = 0usize;
                let mut k = j;
                while k < toks.len() {
                    match toks[k].kind {
                        TK::OpenDelim => depth += 1,
                        TK::CloseDelim => {
                            depth -= 1;
                            if depth == 0 {
                                break;
                            }
                        }
                        _ => {}
                    }
                    k += 1;
                }
                let hi = if k < toks.len() { toks[k].hi } else { src.len() };
                out.push((toks[j].lo, hi));
                i = k.max(i + 1);
                continue;
            }
        }
        i += 1;
    }
    out
}

fn in_any(ranges: &[(usize, usize)], pos: usize) -> bool {
    ranges.iter().any(|(lo, hi)| *lo <= pos && pos < *hi)
}

pub struct Discipline {
    pub violations: Vec<(String, String)>,
    pub exempt_verbatim: usize,
}

/// The byte-level checks on one emitted text.
pub fn check_discipline(input: &str, out: &str, opts: &Opts, style: &str) -> Discipline {
    let mut v: Vec<(String, String)> = vec![];
    let mut exempt_verbatim = 0;
    let edition = opt(opts, "edition").unwrap_or("2015").to_owned();
    let hard_tabs = opt_bool(opts, "hard_tabs", false);
    let upper = opt_usize(opts, "blank_lines_upper_bound", 1);
    // the input with LF terminators, for "copied verbatim" lookups
    let input_lf = input.replace("\r\n", "\n");
    let out_lf = out.replace("\r\n", "\n");

    let all_toks = lex(&out_lf);
    // --- A: start and end ---------------------------------------------------------------------
    let skips = skip_ranges(&out_lf, &edition).unwrap_or_default();
    let whole_file_skipped = skips.iter().any(|(lo, hi)| *lo == 0 && *hi >= out_lf.len());
    let out_has_tokens = all_toks.iter().any(|t| t.kind != TK::Whitespace);
    if !whole_file_skipped && out_has_tokens {
        if out_lf.lines().next().map(|l| l.trim().is_empty()).unwrap_or(false) {
            let lead: String = input_lf.chars().take_while(|c| c.is_whitespace()).collect();
            let rest = &input_lf[lead.len()..];
            let plain_comment_first = (rest.starts_with("//") && !rest.starts_with("///") && !rest.starts_with("//!"))
                || (rest.starts_with("/*") && !rest.starts_with("/**") && !rest.starts_with("/*!"));
            let class = if opt_usize(opts, "blank_lines_lower_bound", 0) > 0 {
                "starts-with-blank-line/lower-bound"
            } else if lead.contains('\n') && !lead.ends_with('\n') && !plain_comment_first {
                "starts-with-blank-line/indented-first-token"
            } else {
                "starts-with-blank-line"
            };
            v.push((class.into(), format!("output starts with a blank line: {:?}", &out_lf[..out_lf.len().min(40)])));
        }
        if !out_lf.ends_with('\n') {
            v.push(("no-final-terminator".into(), "output does not end with a line terminator".into()));
        } else if out_lf.ends_with("\n\n") {
            v.push(("extra-final-terminators".into(), "output ends with more than one line terminator".into()));
        }
    }

    // --- B: terminators -----------------------------------------------------------------------
    let lf_count = out.matches('\n').count();
    let crlf_count = out.matches("\r\n").count();
    match style {
        "Unix" | "Native" => {
            if crlf_count > 0 {
                v.push(("crlf-under-unix".into(), format!("{crlf_count} CRLF terminators under newline_style={style}")));
            }
        }
        "Windows" => {
            if crlf_count != lf_count {
                v.push(("bare-lf-under-windows".into(), format!("{} bare LF terminators under newline_style=Windows", lf_count - crlf_count)));
            }
        }
        _ => {
            // Auto: the style of the first terminator of the input
            match first_terminator_is_crlf(input) {
                Some(true) => {
                    if crlf_count != lf_count {
                        v.push(("auto-crlf-first".into(), format!("newline_style=Auto, input starts with CRLF, output has {} bare LF", lf_count - crlf_count)));
                    }
                }
                Some(false) => {
                    if crlf_count > 0 {
                        v.push(("auto-lf-first".into(), format!("newline_style=Auto, input starts with LF, output has {crlf_count} CRLF")));
                    }
                }
                None => {}
            }
        }
    }

    // --- D: blank lines between list elements -------------------------------------------------
    if let Some(gaps) = list_gaps(&out_lf, &edition) {
        for g in gaps {
            if in_any(&skips, g.lo) || g.hi > out_lf.len() || g.lo > g.hi {
                continue;
            }
            let text = &out_lf[g.lo..g.hi];
            let bound = match g.kind {
                GapKind::Items | GapKind::Stmts => upper,
                _ => 1,
            };
            for t in lex(text) {
                if t.kind != TK::Whitespace {
                    continue;
                }
                let nl = t.text(text).matches('\n').count();
                if nl > bound + 1 {
                    // copied verbatim from the input (code rustfmt left as written)? then the
                    // neighbouring tokens and the whitespace between them occur in the input
                    let abs_lo = g.lo + t.lo;
                    let abs_hi = g.lo + t.hi;
                    let prev_tok = all_toks.iter().rev().find(|x| x.hi <= abs_lo && x.kind != TK::Whitespace);
                    let next_tok = all_toks.iter().find(|x| x.lo >= abs_hi && x.kind != TK::Whitespace);
                    let lo = prev_tok.map(|x| x.lo).unwrap_or(abs_lo);
                    let hi = next_tok.map(|x| x.hi).unwrap_or(abs_hi);
                    let around = &out_lf[lo..hi];
                    if prev_tok.is_some() && next_tok.is_some() && input_lf.contains(around) {
                        exempt_verbatim += 1;
                        continue;
                    }
                    // with an upper bound of 0 the unchanged tree keeps a blank line next to a
                    // comment and next to an empty statement (known finding KF-C08-5); elsewhere a
                    // surviving blank line is an ordinary violation
                    let is_comment = |t: Option<&crate::lex::Tok>| t.map(|x| x.kind.is_comment() || x.kind.is_doc()).unwrap_or(false);
                    let is_semi = |t: Option<&crate::lex::Tok>| t.map(|x| x.text(&out_lf) == ";").unwrap_or(false);
                    let before_prev = prev_tok.and_then(|p| all_toks.iter().rev().find(|x| x.hi <= p.lo && x.kind != TK::Whitespace));
                    let empty_stmt_before = is_semi(prev_tok) && before_prev.map(|x| matches!(x.text(&out_lf), ";" | "{" | "}")).unwrap_or(false);
                    let near_special = is_comment(prev_tok) || is_comment(next_tok) || empty_stmt_before || is_semi(next_tok);
                    let class = if upper == 0 && near_special { "blank-lines/upper-bound-0".to_string() } else { format!("blank-lines:{:?}", g.kind) };
                    v.push((
                        class,
                        format!("{} blank lines between consecutive {:?} (bound {bound}): {:?}", nl - 1, g.kind, around),
                    ));
                }
            }
        }
    }

    // --- E: indentation -----------------------------------------------------------------------
    let toks = &all_toks;
    let multiline: Vec<(usize, usize)> = toks
        .iter()
        .filter(|t| t.kind != TK::Whitespace && t.text(&out_lf).contains('\n'))
        .map(|t| (t.lo + 1, t.hi))
        .collect();
    let macros = macro_ranges(&out_lf);
    let mut pos = 0usize;
    for line in out_lf.split_inclusive('\n') {
        let start = pos;
        pos += line.len();
        let body = line.trim_end_matches('\n');
        if body.trim().is_empty() {
            continue;
        }
        if in_any(&multiline, start) || in_any(&skips, start) || in_any(&macros, start) {
            continue;
        }
        let ws: String = body.chars().take_while(|c| c.is_whitespace()).collect();
        let ok = if hard_tabs {
            let spaces = ws.trim_start_matches('\t');
            spaces.chars().all(|c| c == ' ')
        } else {
            ws.chars().all(|c| c == ' ')
        };
        if !ok {
            // code rustfmt could not format is emitted as written: then the same whitespace
            // followed by the same token occurs in the input
            let rest = &body[ws.len()..];
            let first_tok: String = lex(rest).first().map(|t| t.text(rest).to_owned()).unwrap_or_default();
            let prefix = format!("{ws}{first_tok}");
            if input_lf.contains(&prefix) {
                exempt_verbatim += 1;
                continue;
            }
            v.push((
                "indentation".into(),
                format!("line indented with {:?} (hard_tabs={hard_tabs}): {:?}", ws, body),
            ));
        }
    }
    Discipline {
        violations: v,
        exempt_verbatim,
    }
}

impl Property for C08 {
    fn id(&self) -> &'static str {
        "C08"
    }
    fn params(&self, tier: Tier) -> Params {
        Params {
            cases: match tier {
                Tier::Quick => 6_000,
                Tier::Thorough => 150_000,
            },
            max_bytes: 1024,
            timeout: Duration::from_secs(20),
        }
    }
    fn rule(&self) -> &'static str {
        "corpus grid cells and generated programs with LF/CRLF/mixed terminators, blank-line runs, tabs and (one in six) a comment holding a carriage return that is not part of a terminator, x newline_style x blank_lines_upper/lower_bound 0..3 x tab_spaces x hard_tabs x width; oracle: byte scan of the emitted text (single final terminator, no leading blank line, terminators of the required style, metamorphic Unix<->Windows equality, blank-line bounds between list elements located by an independent parse, indentation character classes); judged when rustfmt emits text without a parse error; non-trivial = the input had CRLF/mixed terminators, a blank-line run above the bound or tab indentation, and the output differs from the input"
    }
    fn assumptions(&self) -> Vec<&'static str> {
        vec![
            "lines and blank-line runs that occur verbatim in the input are treated as code rustfmt left as written (counted, not judged)",
            "lines that begin inside macro call delimiters, multi-line tokens or skip-marked nodes are exempt from the indentation rule",
        ]
    }
    fn enum_len(&self, g: &GenCtx) -> usize {
        grid_len(g, 100_000, usize::MAX)
    }
    fn enum_case(&self, g: &GenCtx, i: usize) -> Option<Value> {
        let n = self.enum_len(g);
        let cell = grid_pick(g, "C08", n, i, &SPACE, true);
        let key = crate::props::c02::chunk_key(&cell.src.origin);
        if g.known_sigs.iter().any(|s| s.ends_with(&format!("@{key}"))) {
            return None;
        }
        Some(cell_case(&cell))
    }
    fn generate(&self, c: &mut Choices<'_>, _g: &GenCtx) -> Value {
        let p = gen_prog(c, &ProgSpace::default());
        let wild = c.weighted(&[2, 3, 3, 2]);
        let comment_p = if c.flip() { 3 } else { 0 };
        let r = render(
            &p,
            c,
            &RenderOpts {
                wild,
                comment_p,
                ..Default::default()
            },
        );
        let nl = [Newlines::Lf, Newlines::Crlf, Newlines::Mixed][c.weighted(&[2, 1, 1])];
        let mut text = r.text;
        // leading / trailing blank lines and terminator style
        if c.chance(1, 4) {
            text = format!("{}{}", "\n".repeat(1 + c.below(4)), text);
        }
        if c.chance(1, 4) {
            text.push_str(&"\n".repeat(1 + c.below(4)));
        }
        if nl != Newlines::Lf {
            text = relayout(&text, c, 0, nl);
        }
        // a carriage return that is not part of a terminator, inside a comment at the top or the
        // bottom of the file (followed by further lines)
        if c.chance(1, 6) {
            let cm = *c.pick(&["// note\rcarriage\n", "/* a\rb */\n", "// x\r\ry\n"]);
            text = if c.flip() { format!("{cm}{text}") } else { format!("{text}{cm}fn after_the_comment() {{}}\n") };
        }
        let space = ConfSpace {
            min_edition: p.min_edition,
            ..SPACE
        };
        let mut opts = gen_conf(c, &space);
        if p.only_2015 {
            for o in opts.iter_mut() {
                if o.0 == "edition" {
                    o.1 = "2015".into();
                }
            }
        }
        json!({"src": text, "opts": opts_to(&opts), "origin": "prog", "layout": wild})
    }
    fn run(&self, case: &Value, _r: &RunCtx) -> Outcome {
        let src = case["src"].as_str().unwrap_or("");
        let opts = opts_from(&case["opts"]);
        let origin = case["origin"].as_str().unwrap_or("");
        let key = crate::props::c02::chunk_key(origin);
        if lex(src).iter().all(|t| t.kind == TK::Whitespace) {
            return Outcome::skip("no-token-or-comment");
        }
        let style = opt(&opts, "newline_style").unwrap_or("Auto").to_owned();
        let o1 = format_text(src, &opts);
        if !o1.emitted() {
            return Outcome::skip("not-emitted");
        }
        if o1.text.is_empty() {
            // `#![rustfmt::skip]` on standard input is echoed to the process's stdout
            return Outcome::skip("echoed-to-stdout");
        }
        let mut o = Outcome::pass();
        o.labels.extend(conf_labels(&opts));
        let had_crlf = src.contains("\r\n");
        let upper = opt_usize(&opts, "blank_lines_upper_bound", 1);
        let long_run = src.replace("\r\n", "\n").contains(&"\n".repeat(upper + 3));
        let had_tabs = src.lines().any(|l| l.starts_with('\t'));
        if had_crlf {
            o.labels.push("input:crlf".into());
        }
        if long_run {
            o.labels.push("input:blank-run-above-bound".into());
        }
        if had_tabs {
            o.labels.push("input:tab-indent".into());
        }
        o.nontrivial = (had_crlf || long_run || had_tabs) && o1.text != src;
        let d = check_discipline(src, &o1.text, &opts, &style);
        if d.exempt_verbatim > 0 {
            o.excluded.push("line-or-gap-copied-verbatim-from-input".into());
        }
        // known class D4: newline_style=Auto with a CRLF-first input is emitted with LF
        let judge_known = case["judge_known"].as_bool().unwrap_or(false) || std::env::var("VP_JUDGE_KNOWN").is_ok();
        let mut viol: Vec<(String, String)> = d.violations;
        if !judge_known {
            let before = viol.len();
            viol.retain(|(k, _)| !KNOWN_CLASSES.contains(&k.as_str()));
            if viol.len() != before {
                o.excluded.push("known-class(auto-crlf-first|leading-blank|reorder_impl_items)".into());
            }
        }
        // known class: dropping an empty `use a::{};` / `#[derive()]` leaves its surrounding
        // whitespace behind (leading blank line, extra blank lines, stray indentation)
        let removed_item = has_removed_item(src);
        if removed_item {
            let before = viol.len();
            for (k, _) in viol.iter_mut() {
                if k.starts_with("starts-with-blank-line") || k.starts_with("blank-lines:") || k == "indentation" {
                    *k = "removed-empty-item-residue".into();
                }
            }
            if !judge_known {
                viol.retain(|(k, _)| k != "removed-empty-item-residue");
                if viol.len() != before {
                    o.excluded.push("known-class(removed-empty-item-residue)".into());
                }
            }
        }
        // known class: with blank_lines_upper_bound=0 a blank line survives after comments and
        // around empty statements
        if upper == 0 {
            let before = viol.len();
            // (items of an impl moved by reorder_impl_items keep the blank line that followed them)
            if opt_bool(&opts, "reorder_impl_items", false) {
                for (k, _) in viol.iter_mut() {
                    if k.starts_with("blank-lines:") {
                        *k = "blank-lines/upper-bound-0".into();
                    }
                }
            }
            if !judge_known {
                viol.retain(|(k, _)| k != "blank-lines/upper-bound-0");
                if viol.len() != before {
                    o.excluded.push("known-class(blank-lines/upper-bound-0)".into());
                }
            }
        }
        // --- C: metamorphic Unix <-> Windows ---------------------------------------------------
        if viol.is_empty() && (style == "Unix" || style == "Windows") {
            let other = if style == "Unix" { "Windows" } else { "Unix" };
            let mut o2 = opts.clone();
            for p in o2.iter_mut() {
                if p.0 == "newline_style" {
                    p.1 = other.into();
                }
            }
            let r2 = format_text(src, &o2);
            if r2.emitted() {
                let (unix, win) = if style == "Unix" { (&o1.text, &r2.text) } else { (&r2.text, &o1.text) };
                if unix.replace('\n', "\r\n") != *win {
                    viol.push((
                        "unix-windows-differ".into(),
                        format!("converting the style changes more than the terminators; {}", first_diff(&unix.replace('\n', "\r\n"), win)),
                    ));
                }
                o.labels.push("metamorphic-unix-windows".into());
            }
        }
        if let Some((k, m)) = viol.into_iter().next() {
            let sig = if KNOWN_CLASSES.contains(&k.as_str()) { k.clone() } else { format!("{k}@{key}") };
            let mut f = Outcome::fail(sig, m);
            f.labels = o.labels;
            f.nontrivial = true;
            return f;
        }
        o
    }
}
