//! O-TOK: token-level equivalence of two program texts up to the closed set of style
//! normalisations named by property C01. Independent of rustfmt: both texts are lexed with
//! `rustc_lexer`, canonicalised identically (import leaves, module/extern-crate runs, derive
//! lists, nested parentheses, opt-in shorthands), and then walked in lock step; at a mismatch
//! only an edit from the closed list — checked against its local context — may be skipped.

use crate::lex::{lex, TK};

#[derive(Debug, Clone, PartialEq, Eq)]
pub enum K {
    Ident,
    Lifetime,
    Int,
    Float,
    Str,
    OtherLit,
    Punct,
    Open,
    Close,
    /// doc comment content (inner?)
    Doc(bool),
}

#[derive(Debug, Clone, PartialEq, Eq)]
pub struct T {
    pub k: K,
    pub s: String,
}

impl T {
    fn p(s: &str) -> T {
        T {
            k: match s {
                "(" | "[" | "{" => K::Open,
                ")" | "]" | "}" => K::Close,
                _ => K::Punct,
            },
            s: s.to_owned(),
        }
    }
    fn is(&self, s: &str) -> bool {
        self.s == s && !matches!(self.k, K::Doc(_) | K::Str | K::OtherLit)
    }
}

#[derive(Debug, Clone, Default)]
pub struct CmpOpts {
    pub use_try_shorthand: bool,
    pub use_field_init_shorthand: bool,
    pub condense_wildcard_suffixes: bool,
    pub hex_literal_case: bool,
    pub float_literal_trailing_zero: bool,
    pub normalize_doc_attributes: bool,
    /// wrap_comments / normalize_comments: doc comments are compared as word streams
    pub doc_words: bool,
    /// format_code_in_doc_comments: doc comment content is not compared
    pub ignore_doc_content: bool,
    /// reorder_impl_items: compare as token multisets only
    pub multiset_only: bool,
    /// strict mode (used on pretty-printed ASTs): no parenthesis / brace edits
    pub strict: bool,
    /// accept `macro_rules!` transcriber and `lazy_static!` delimiter changes (known findings)
    pub accept_known_macro_delims: bool,
    /// edition 2015: a leading `::` of an import path is redundant
    pub edition_2015: bool,
}

#[derive(Debug, Clone)]
pub struct Mismatch {
    /// short class of the mismatch, e.g. `token:Ident`, `extra-input`, `extra-output`
    pub class: String,
    pub msg: String,
}

#[derive(Debug, Clone, Default)]
pub struct CmpStats {
    pub edits: Vec<&'static str>,
    pub tokens: usize,
}

// ---------------------------------------------------------------------------------------------
// lexing into the comparison alphabet

fn doc_lines(text: &str, block: bool) -> Vec<String> {
    if !block {
        let body = &text[3..];
        return vec![body.trim().to_owned()];
    }
    let inner = &text[3..text.len().saturating_sub(2).max(3)];
    inner
        .lines()
        .map(|l| {
            let l = l.trim();
            let l = l.strip_prefix('*').unwrap_or(l);
            l.trim().to_owned()
        })
        .collect()
}

pub fn tokens(src: &str, o: &CmpOpts) -> Vec<T> {
    let mut out: Vec<T> = vec![];
    for t in lex(src) {
        let text = t.text(src);
        let k = match t.kind {
            TK::Whitespace | TK::LineComment | TK::BlockComment | TK::Shebang => continue,
            TK::Ident | TK::RawIdent | TK::Unknown => K::Ident,
            TK::Lifetime => K::Lifetime,
            TK::Int => K::Int,
            TK::Float => K::Float,
            TK::Str | TK::ByteStr | TK::CStr => K::Str,
            TK::Char | TK::Byte | TK::RawStr | TK::RawByteStr | TK::RawCStr => K::OtherLit,
            TK::Punct => K::Punct,
            TK::OpenDelim => K::Open,
            TK::CloseDelim => K::Close,
            TK::DocLine { inner } | TK::DocBlock { inner } => {
                let block = matches!(t.kind, TK::DocBlock { .. });
                for l in doc_lines(text, block) {
                    if l.is_empty() {
                        continue;
                    }
                    out.push(T {
                        k: K::Doc(inner),
                        s: if o.ignore_doc_content { String::new() } else { l },
                    });
                }
                continue;
            }
        };
        // `x.0.0`: the lexer sees the float `0.0`
        let n_out = out.len();
        if k == K::Float && out.last().map(|p| p.is(".")).unwrap_or(false) && !(n_out >= 2 && out[n_out - 2].is(".")) {
            let parts: Vec<&str> = text.split('.').collect();
            if parts.len() == 2 && parts.iter().all(|p| !p.is_empty() && p.chars().all(|c| c.is_ascii_digit())) {
                out.push(T { k: K::Int, s: parts[0].into() });
                out.push(T::p("."));
                out.push(T { k: K::Int, s: parts[1].into() });
                continue;
            }
        }
        out.push(T { k, s: text.to_owned() });
    }
    out
}

fn match_delims(v: &[T]) -> Vec<usize> {
    // for every opener the index of its closer (usize::MAX if unbalanced), and vice versa
    let mut m = vec![usize::MAX; v.len()];
    let mut stack: Vec<usize> = vec![];
    for (i, t) in v.iter().enumerate() {
        match t.k {
            K::Open => stack.push(i),
            K::Close => {
                if let Some(o) = stack.pop() {
                    m[o] = i;
                    m[i] = o;
                }
            }
            _ => {}
        }
    }
    m
}

// ---------------------------------------------------------------------------------------------
// canonicalisation passes (applied to both sides)

fn is_word(t: &T) -> bool {
    matches!(t.k, K::Ident)
}

/// `try!(e)` -> `e ?`
fn canon_try(v: Vec<T>) -> Vec<T> {
    let m = match_delims(&v);
    let mut out = vec![];
    let mut close_as_q: Vec<usize> = vec![];
    let mut i = 0;
    while i < v.len() {
        if v[i].is("try") && i + 2 < v.len() && v[i + 1].is("!") && v[i + 2].is("(") && m[i + 2] != usize::MAX {
            close_as_q.push(m[i + 2]);
            i += 3;
            continue;
        }
        if close_as_q.contains(&i) {
            out.push(T::p("?"));
        } else {
            out.push(v[i].clone());
        }
        i += 1;
    }
    out
}

/// `S { a: a }` -> `S { a }`
fn canon_field_shorthand(v: Vec<T>) -> Vec<T> {
    let mut out: Vec<T> = vec![];
    let mut i = 0;
    while i < v.len() {
        if i + 2 < v.len()
            && is_word(&v[i])
            && v[i + 1].is(":")
            && v[i + 2] == v[i]
            && i > 0
            && (v[i - 1].is("{") || v[i - 1].is(",") || v[i - 1].is("]"))
            && v.get(i + 3).map(|t| t.is(",") || t.is("}")).unwrap_or(false)
        {
            out.push(v[i].clone());
            i += 3;
            continue;
        }
        out.push(v[i].clone());
        i += 1;
    }
    out
}

/// `(a, _, _)` -> `(a, ..)`; `(_, ..)` -> `(..)`
fn canon_wildcards(v: Vec<T>) -> Vec<T> {
    let m = match_delims(&v);
    let mut drop = vec![false; v.len()];
    let mut dots_at: Vec<usize> = vec![];
    for i in 0..v.len() {
        if !(v[i].is(")") && m[i] != usize::MAX) {
            continue;
        }
        let open = m[i];
        // walk back over the trailing run of `_` / `..` elements
        let mut k = i;
        if k > open + 1 && v[k - 1].is(",") {
            k -= 1;
        }
        let mut wildcards = 0;
        loop {
            if k >= open + 2 && v[k - 1].is(".") && v[k - 2].is(".") && (k - 2 == open + 1 || v[k - 3].is(",")) {
                k -= 2;
            } else if k >= open + 1 && k > open + 1 - 1 && v[k - 1].is("_") && (k - 1 == open + 1 || v[k - 2].is(",")) {
                k -= 1;
                wildcards += 1;
            } else {
                break;
            }
            if k > open + 1 && v[k - 1].is(",") {
                k -= 1;
            } else {
                break;
            }
        }
        if wildcards >= 1 {
            // tokens k..i form `[,] _ , _ , .. [,]`
            for d in drop.iter_mut().take(i).skip(k) {
                *d = true;
            }
            dots_at.push(k);
        }
    }
    let mut out = vec![];
    for (i, t) in v.iter().enumerate() {
        if dots_at.contains(&i) {
            if i >= 1 && !v[i - 1].is("(") && !v[i].is(",") {
                out.push(T::p(","));
            } else if v[i].is(",") {
                out.push(T::p(","));
            }
            out.push(T::p("."));
            out.push(T::p("."));
        }
        if !drop[i] {
            out.push(t.clone());
        }
    }
    out
}

/// `#[doc = "x"]` -> doc token
fn canon_doc_attrs(v: Vec<T>, ignore: bool) -> Vec<T> {
    let mut out = vec![];
    let mut i = 0;
    while i < v.len() {
        if v[i].is("#") {
            let (inner, j) = if v.get(i + 1).map(|t| t.is("!")).unwrap_or(false) { (true, i + 2) } else { (false, i + 1) };
            if v.get(j).map(|t| t.is("[")).unwrap_or(false)
                && v.get(j + 1).map(|t| t.is("doc")).unwrap_or(false)
                && v.get(j + 2).map(|t| t.is("=")).unwrap_or(false)
                && v.get(j + 3).map(|t| t.k == K::Str && t.s.starts_with('"')).unwrap_or(false)
                && v.get(j + 4).map(|t| t.is("]")).unwrap_or(false)
            {
                let s = &v[j + 3].s;
                let body = if ignore { String::from(" ") } else { s[1..s.len() - 1].to_owned() };
                let body = body.replace("\\\"", "\"").replace("\\'", "'").replace("\\\\", "\\").trim().to_owned();
                if ignore {
                    out.push(T { k: K::Doc(inner), s: String::new() });
                } else {
                    for l in body.lines() {
                        let l = l.trim();
                        if !l.is_empty() {
                            out.push(T { k: K::Doc(inner), s: l.to_owned() });
                        }
                    }
                }
                i = j + 5;
                continue;
            }
        }
        out.push(v[i].clone());
        i += 1;
    }
    out
}

/// consecutive doc tokens -> one token holding the words
fn canon_doc_words(v: Vec<T>) -> Vec<T> {
    let mut out: Vec<T> = vec![];
    for t in v {
        if let K::Doc(inner) = t.k {
            // markdown block-quote markers are repeated on every wrapped line
            let line = t.s.trim_start_matches(|c: char| c == '>' || c.is_whitespace());
            let words: Vec<&str> = line.split_whitespace().collect();
            if let Some(last) = out.last_mut() {
                if last.k == K::Doc(inner) {
                    if !last.s.is_empty() && !words.is_empty() {
                        last.s.push(' ');
                    }
                    last.s.push_str(&words.join(" "));
                    continue;
                }
            }
            out.push(T { k: K::Doc(inner), s: words.join(" ") });
        } else {
            out.push(t);
        }
    }
    // list markers and wrapped punctuation may be re-flowed: compare letters and digits only
    for t in out.iter_mut() {
        if matches!(t.k, K::Doc(_)) {
            t.s = t.s.chars().filter(|c| !c.is_whitespace() && *c != '>').collect();
        }
    }
    out
}

/// `((x))` -> `(x)` where the outer parenthesis is not a call / tuple-struct / generic position
fn canon_nested_parens(v: Vec<T>) -> Vec<T> {
    let m = match_delims(&v);
    let mut drop = vec![false; v.len()];
    for i in 0..v.len() {
        if v[i].is("(") && m[i] != usize::MAX && i + 1 < v.len() && v[i + 1].is("(") && m[i + 1] != usize::MAX && m[i + 1] + 1 == m[i] {
            // outer = i..m[i], inner = i+1..m[i+1]; drop the inner pair
            drop[i + 1] = true;
            drop[m[i + 1]] = true;
        }
    }
    v.into_iter().zip(drop).filter(|(_, d)| !*d).map(|(t, _)| t).collect()
}

#[derive(Debug, Clone, PartialEq, Eq)]
struct Leaf {
    attrs: Vec<T>,
    vis: Vec<T>,
    path: String,
    alias: Option<String>,
}

impl Leaf {
    fn key(&self) -> (Vec<String>, Vec<String>, String, Option<String>) {
        (toks_str(&self.attrs), toks_str(&self.vis), self.path.clone(), self.alias.clone())
    }
}

/// Expands the tree tokens (after `use`, before `;`) into leaves. None if malformed.
fn expand_use(tree: &[T]) -> Option<Vec<(String, Option<String>)>> {
    fn go(t: &[T], prefix: &str, out: &mut Vec<(String, Option<String>)>) -> Option<()> {
        // split off a leading path up to `{`, `*` or end
        let mut i = 0;
        let mut path = prefix.to_owned();
        loop {
            if i >= t.len() {
                break;
            }
            if t[i].is("{") {
                // list: must end with matching }
                if !t[t.len() - 1].is("}") {
                    return None;
                }
                let inner = &t[i + 1..t.len() - 1];
                // split at top-level commas
                let mut depth = 0;
                let mut start = 0;
                let mut parts: Vec<&[T]> = vec![];
                for (k, x) in inner.iter().enumerate() {
                    match x.k {
                        K::Open => depth += 1,
                        K::Close => depth -= 1,
                        _ => {}
                    }
                    if depth == 0 && x.is(",") {
                        parts.push(&inner[start..k]);
                        start = k + 1;
                    }
                }
                if start < inner.len() {
                    parts.push(&inner[start..]);
                }
                for p in parts {
                    if p.is_empty() {
                        continue;
                    }
                    go(p, &path, out)?;
                }
                return Some(());
            }
            if t[i].is("*") {
                out.push((format!("{path}*"), None));
                return if i + 1 == t.len() { Some(()) } else { None };
            }
            if t[i].is("as") {
                let alias = t.get(i + 1)?.s.clone();
                if i + 2 != t.len() {
                    return None;
                }
                let p = path.trim_end_matches("::").to_owned();
                // `a::{self as x}` == `a as x`
                let p = p.strip_suffix("::self").map(|s| s.to_owned()).unwrap_or(p);
                // `use a::b as b` is `use a::b`
                let alias = if p.rsplit("::").next() == Some(alias.as_str()) { None } else { Some(alias) };
                out.push((p, alias));
                return Some(());
            }
            if t[i].is(":") {
                if !t.get(i + 1)?.is(":") {
                    return None;
                }
                path.push_str("::");
                i += 2;
                continue;
            }
            if matches!(t[i].k, K::Ident) {
                path.push_str(&t[i].s);
                i += 1;
                continue;
            }
            return None;
        }
        let p = path.to_owned();
        // `a::{self}` == `a`
        let p = if p.ends_with("::self") && p != "::self" { p[..p.len() - 6].to_owned() } else { p };
        if p.is_empty() {
            return None;
        }
        out.push((p, None));
        Some(())
    }
    let mut out = vec![];
    go(tree, "", &mut out)?;
    Some(out)
}

/// Returns the start index of the attributes + visibility that precede the keyword at `kw`.
fn item_prefix_start(v: &[T], m: &[usize], kw: usize) -> (usize, usize) {
    // returns (attrs_start, vis_start)
    let mut i = kw;
    // visibility
    let mut vis_start = kw;
    if i >= 1 && v[i - 1].is("pub") {
        vis_start = i - 1;
    } else if i >= 2 && v[i - 1].is(")") && m[i - 1] != usize::MAX && m[i - 1] >= 1 && v[m[i - 1] - 1].is("pub") {
        vis_start = m[i - 1] - 1;
    }
    i = vis_start;
    // attributes and outer doc comments
    loop {
        if i >= 1 && matches!(v[i - 1].k, K::Doc(false)) {
            i -= 1;
            continue;
        }
        if i >= 1 && v[i - 1].is("]") && m[i - 1] != usize::MAX && m[i - 1] >= 1 && v[m[i - 1] - 1].is("#") {
            i = m[i - 1] - 1;
            continue;
        }
        break;
    }
    (i, vis_start)
}

/// `pub(in crate)` / `pub(in self)` / `pub(in super)` are respelled without `in` (C01's closed
/// list: "the spelling of restricted visibility"): canonical form of a visibility.
fn norm_vis(v: Vec<T>) -> Vec<T> {
    if v.len() == 5 && v[0].s == "pub" && v[1].s == "(" && v[2].s == "in" && matches!(v[3].s.as_str(), "crate" | "self" | "super") && v[4].s == ")" {
        return v.into_iter().enumerate().filter(|(i, _)| *i != 2).map(|(_, t)| t).collect();
    }
    v
}

fn toks_str(v: &[T]) -> Vec<String> {
    v.iter().map(|t| t.s.clone()).collect()
}

/// Canonicalises runs of `use`, `mod x;` and `extern crate` items and derive attributes.
fn canon_reorderable(v: Vec<T>, edition_2015: bool) -> Vec<T> {
    let m = match_delims(&v);
    // find simple items: (start, end_exclusive, kind, sort key, replacement tokens)
    #[derive(Clone)]
    struct It {
        start: usize,
        end: usize,
        kind: u8,
        leaves: Vec<Leaf>,
    }
    let mut items: Vec<It> = vec![];
    let mut i = 0;
    while i < v.len() {
        let kw = &v[i];
        let kind = if kw.is("use") && !v.get(i + 1).map(|t| t.is("<")).unwrap_or(false) {
            1
        } else if kw.is("mod") && v.get(i + 2).map(|t| t.is(";")).unwrap_or(false) && v.get(i + 1).map(is_word).unwrap_or(false) {
            2
        } else if kw.is("extern") && v.get(i + 1).map(|t| t.is("crate")).unwrap_or(false) {
            3
        } else {
            0
        };
        if kind == 0 {
            i += 1;
            continue;
        }
        // end: next `;` at depth 0
        let mut depth = 0i32;
        let mut j = i;
        let mut end = None;
        while j < v.len() {
            match v[j].k {
                K::Open => depth += 1,
                K::Close => {
                    depth -= 1;
                    if depth < 0 {
                        break;
                    }
                }
                _ => {}
            }
            if depth == 0 && v[j].is(";") {
                end = Some(j);
                break;
            }
            j += 1;
        }
        let Some(end) = end else {
            i += 1;
            continue;
        };
        let (attrs_start, vis_start) = item_prefix_start(&v, &m, i);
        // an earlier item may already cover this region (cannot happen for well-formed code)
        if items.last().map(|l| l.end > attrs_start).unwrap_or(false) {
            i = end + 1;
            continue;
        }
        let attrs = v[attrs_start..vis_start].to_vec();
        let vis = norm_vis(v[vis_start..i].to_vec());
        let leaves = match kind {
            1 => match expand_use(&v[i + 1..end]) {
                Some(ls) => ls
                    .into_iter()
                    .map(|(path, alias)| Leaf {
                        attrs: attrs.clone(),
                        vis: vis.clone(),
                        path: if edition_2015 { path.trim_start_matches("::").to_owned() } else { path },
                        alias,
                    })
                    .collect(),
                None => {
                    i = end + 1;
                    continue;
                }
            },
            _ => vec![Leaf {
                attrs: attrs.clone(),
                vis: vis.clone(),
                path: toks_str(&v[i..end]).join(" "),
                alias: None,
            }],
        };
        items.push(It {
            start: attrs_start,
            end: end + 1,
            kind,
            leaves,
        });
        i = end + 1;
    }
    if items.is_empty() {
        return canon_derives(v);
    }
    // an import that imports nothing (`use {};`, `use a::{};`) is deleted by rustfmt: cut it out
    // first, so that the runs on both sides of it are delimited alike in input and output
    if items.iter().any(|it| it.kind == 1 && it.leaves.is_empty()) {
        let mut rest: Vec<T> = vec![];
        let mut pos = 0;
        for it in items.iter().filter(|it| it.kind == 1 && it.leaves.is_empty()) {
            rest.extend_from_slice(&v[pos..it.start]);
            pos = it.end;
        }
        rest.extend_from_slice(&v[pos..]);
        return canon_reorderable(rest, edition_2015);
    }
    // group adjacent items of the same kind into runs
    let mut out: Vec<T> = vec![];
    let mut pos = 0;
    let mut k = 0;
    while k < items.len() {
        let mut r = k;
        while r + 1 < items.len() && items[r + 1].kind == items[k].kind && items[r + 1].start == items[r].end {
            r += 1;
        }
        out.extend_from_slice(&v[pos..items[k].start]);
        let mut leaves: Vec<Leaf> = items[k..=r].iter().flat_map(|it| it.leaves.clone()).collect();
        leaves.sort_by_key(|l| l.key());
        leaves.dedup();
        for l in leaves {
            out.extend(l.attrs.iter().cloned());
            out.extend(l.vis.iter().cloned());
            let kw = match items[k].kind {
                1 => "use",
                _ => "",
            };
            if !kw.is_empty() {
                out.push(T { k: K::Ident, s: kw.into() });
            }
            out.push(T { k: K::Ident, s: l.path.clone() });
            if let Some(a) = &l.alias {
                out.push(T { k: K::Ident, s: "as".into() });
                out.push(T { k: K::Ident, s: a.clone() });
            }
            out.push(T::p(";"));
        }
        pos = items[r].end;
        k = r + 1;
    }
    out.extend_from_slice(&v[pos..]);
    canon_derives(out)
}

/// Runs of `#[derive(..)]` attributes -> one derive with sorted arguments; empty derives vanish.
fn canon_derives(v: Vec<T>) -> Vec<T> {
    let m = match_delims(&v);
    let mut out: Vec<T> = vec![];
    let mut i = 0;
    while i < v.len() {
        let is_derive = |i: usize| -> Option<usize> {
            if v.get(i)?.is("#") && v.get(i + 1)?.is("[") && v.get(i + 2)?.is("derive") && v.get(i + 3)?.is("(") {
                let close = m[i + 3];
                if close != usize::MAX && v.get(close + 1)?.is("]") {
                    return Some(close + 2);
                }
            }
            None
        };
        if let Some(_) = is_derive(i) {
            let mut args: Vec<String> = vec![];
            let mut j = i;
            while let Some(next) = is_derive(j) {
                let inner = &v[j + 4..next - 2];
                let mut cur = String::new();
                let mut depth = 0;
                for t in inner {
                    match t.k {
                        K::Open => depth += 1,
                        K::Close => depth -= 1,
                        _ => {}
                    }
                    if depth == 0 && t.is(",") {
                        if !cur.is_empty() {
                            args.push(std::mem::take(&mut cur));
                        }
                    } else {
                        cur.push_str(&t.s);
                        cur.push(' ');
                    }
                }
                if !cur.is_empty() {
                    args.push(cur);
                }
                j = next;
            }
            args.sort();
            if !args.is_empty() {
                out.push(T { k: K::Ident, s: format!("#[derive({})]", args.join(",")) });
            }
            i = j;
            continue;
        }
        out.push(v[i].clone());
        i += 1;
    }
    out
}

pub fn canonical(src: &str, o: &CmpOpts) -> Vec<T> {
    let mut v = tokens(src, o);
    if o.normalize_doc_attributes {
        v = canon_doc_attrs(v, o.ignore_doc_content);
    }
    if o.doc_words || o.ignore_doc_content {
        v = canon_doc_words(v);
    }
    if o.use_try_shorthand {
        v = canon_try(v);
    }
    if o.use_field_init_shorthand {
        v = canon_field_shorthand(v);
    }
    if o.condense_wildcard_suffixes {
        v = canon_wildcards(v);
    }
    v = canon_nested_parens(v);
    v = canon_reorderable(v, o.edition_2015);
    v
}

// ---------------------------------------------------------------------------------------------
// lock-step comparison

fn float_norm(s: &str) -> (String, String, String) {
    // (mantissa without a trailing `.`/`.0`, exponent, suffix)
    let s: String = s.chars().filter(|c| *c != '_').collect();
    let pos = s.find(|c: char| c == 'f').unwrap_or(s.len());
    let (num, suf) = s.split_at(pos);
    let (mant, exp) = match num.find(['e', 'E']) {
        Some(p) => (&num[..p], num[p..].to_ascii_lowercase()),
        None => (num, String::new()),
    };
    let mant = match mant.find('.') {
        Some(p) => {
            let frac = mant[p + 1..].trim_end_matches('0');
            if frac.is_empty() {
                mant[..p].to_owned()
            } else {
                format!("{}.{}", &mant[..p], frac)
            }
        }
        None => mant.to_owned(),
    };
    (mant, exp, suf.to_owned())
}

fn lit_equal(a: &T, b: &T, o: &CmpOpts) -> bool {
    if o.float_literal_trailing_zero
        && matches!(a.k, K::Int | K::Float)
        && matches!(b.k, K::Int | K::Float)
        && (a.k == K::Float || b.k == K::Float)
        && !a.s.starts_with("0x")
        && !b.s.starts_with("0x")
    {
        return float_norm(&a.s) == float_norm(&b.s);
    }
    if a.k != b.k {
        // `1.` (float) vs `1.0`: same kind; int vs float never equal
        return false;
    }
    match a.k {
        K::Str => {
            let strip = |s: &str| -> String {
                // remove line continuations: backslash, newline, leading whitespace
                let mut out = String::new();
                let b: Vec<char> = s.chars().collect();
                let mut i = 0;
                while i < b.len() {
                    if b[i] == '\\' && i + 1 < b.len() && (b[i + 1] == '\n' || (b[i + 1] == '\r' && i + 2 < b.len() && b[i + 2] == '\n')) {
                        i += if b[i + 1] == '\r' { 3 } else { 2 };
                        while i < b.len() && b[i].is_whitespace() {
                            i += 1;
                        }
                        continue;
                    }
                    if b[i] == '\\' && i + 1 < b.len() {
                        out.push(b[i]);
                        out.push(b[i + 1]);
                        i += 2;
                        continue;
                    }
                    out.push(b[i]);
                    i += 1;
                }
                out.replace("\r\n", "\n")
            };
            strip(&a.s) == strip(&b.s)
        }
        K::Int if o.hex_literal_case => {
            let (x, y) = (&a.s, &b.s);
            if x.starts_with("0x") && y.starts_with("0x") {
                // digits may change case; the suffix may not
                let split = |s: &str| -> (String, String) {
                    let body = &s[2..];
                    let pos = body.find(|c: char| !(c.is_ascii_hexdigit() || c == '_')).unwrap_or(body.len());
                    // a suffix like `u8`/`i64`/`usize` starts with a non-hex letter; `f32` would be
                    // ambiguous but is not a valid hex suffix
                    (body[..pos].to_ascii_lowercase(), body[pos..].to_owned())
                };
                return split(x) == split(y);
            }
            false
        }
        K::Float if o.float_literal_trailing_zero => {
            let norm = |s: &str| -> String {
                // split suffix
                let pos = s.find(|c: char| c == 'f' && true).unwrap_or(s.len());
                let (num, suf) = s.split_at(pos);
                let (mant, exp) = match num.find(['e', 'E']) {
                    Some(p) => (&num[..p], &num[p..]),
                    None => (num, ""),
                };
                let mant = if let Some(p) = mant.find('.') {
                    let frac = &mant[p + 1..];
                    if frac.is_empty() || frac.chars().all(|c| c == '0') && frac.len() == 1 {
                        mant[..p].to_owned()
                    } else {
                        mant.to_owned()
                    }
                } else {
                    mant.to_owned()
                };
                format!("{mant}{exp}{suf}")
            };
            norm(&a.s) == norm(&b.s)
        }
        K::OtherLit => a.s.replace("\r\n", "\n") == b.s.replace("\r\n", "\n"),
        _ => false,
    }
}

struct Side<'a> {
    v: &'a [T],
    m: Vec<usize>,
    /// indices to be skipped when reached (closers of skipped openers)
    skip: Vec<bool>,
    /// openers that were skipped as a style edit
    skipped_open: Vec<bool>,
    /// token lies inside the delimiters of a macro invocation or definition
    in_macro: Vec<bool>,
    /// token lies inside a `macro_rules! name { .. }` definition
    in_macro_rules: Vec<bool>,
}

impl<'a> Side<'a> {
    fn new(v: &'a [T]) -> Self {
        let m = match_delims(v);
        let mut in_macro = vec![false; v.len()];
        let mut in_macro_rules = vec![false; v.len()];
        for k in 0..v.len() {
            if v[k].k == K::Open && m[k] != usize::MAX && k >= 1 {
                let bang = v[k - 1].is("!") || (k >= 2 && v[k - 2].is("!") && matches!(v[k - 1].k, K::Ident));
                if bang {
                    for x in in_macro.iter_mut().take(m[k]).skip(k + 1) {
                        *x = true;
                    }
                }
                if k >= 3 && v[k - 2].is("!") && v[k - 3].is("macro_rules") {
                    for x in in_macro_rules.iter_mut().take(m[k]).skip(k + 1) {
                        *x = true;
                    }
                }
            }
        }
        Side {
            in_macro,
            in_macro_rules,
            m,
            skip: vec![false; v.len()],
            skipped_open: vec![false; v.len()],
            v,
        }
    }
    fn at(&self, i: usize) -> Option<&T> {
        self.v.get(i)
    }
    fn is(&self, i: usize, s: &str) -> bool {
        self.v.get(i).map(|t| t.is(s)).unwrap_or(false)
    }
    fn prev_is(&self, i: usize, s: &str) -> bool {
        i >= 1 && self.is(i - 1, s)
    }
    fn is_closer(&self, i: usize) -> bool {
        match self.v.get(i) {
            None => true,
            Some(t) => t.k == K::Close || t.is(">") || t.is("|"),
        }
    }
    /// first token of the statement / element that contains position i (scan back to `;{},`)
    #[allow(dead_code)]
    fn stmt_start(&self, i: usize) -> usize {
        let mut k = i;
        let mut depth = 0i32;
        while k > 0 {
            let t = &self.v[k - 1];
            match t.k {
                K::Close => depth += 1,
                K::Open => {
                    if depth == 0 {
                        return k;
                    }
                    depth -= 1;
                }
                _ => {}
            }
            if depth == 0 && (t.is(";") || t.is(",")) {
                return k;
            }
            k -= 1;
        }
        0
    }
    /// is the statement that ends at position i (exclusive) a `return`/`break`/`continue`?
    fn jump_before(&self, i: usize) -> bool {
        let mut k = i;
        while k > 0 {
            k -= 1;
            let t = &self.v[k];
            if t.k == K::Close {
                if self.m[k] == usize::MAX {
                    return false;
                }
                k = self.m[k];
                continue;
            }
            if t.k == K::Open || t.is(";") || t.is(",") {
                return false;
            }
            if t.is("return") || t.is("break") || t.is("continue") {
                return true;
            }
        }
        false
    }
    /// single-expression block starting at `{` (index i): non-empty, no `;` at depth 0
    fn single_expr_block(&self, i: usize) -> bool {
        let c = self.m[i];
        if c == usize::MAX || c == i + 1 {
            return false;
        }
        let jump = self.is(i + 1, "return") || self.is(i + 1, "break") || self.is(i + 1, "continue");
        let mut depth = 0;
        for k in i + 1..c {
            match self.v[k].k {
                K::Open => depth += 1,
                K::Close => depth -= 1,
                _ => {}
            }
            if depth == 0 && self.v[k].is(";") {
                // `{ return x; }` is `return x` (trailing_semicolon)
                if jump && k + 1 == c {
                    continue;
                }
                return false;
            }
        }
        // must not start with a statement keyword
        !(self.is(i + 1, "let"))
    }
    fn after_closure_params(&self, i: usize) -> bool {
        // `{` directly after the closing `|` of a parameter list (or `||`). A block as the right
        // operand of a binary `|` is the only other reading; the rule is consulted at a
        // mismatch only, and the tree-shape comparison guards it.
        i >= 1 && self.is(i - 1, "|")
    }
    fn prev_arrow(&self, i: usize) -> bool {
        i >= 2 && self.is(i - 1, ">") && self.is(i - 2, "=")
    }
}

pub fn compare_tokens(a: &[T], b: &[T], o: &CmpOpts) -> Result<CmpStats, Mismatch> {
    let mut st = CmpStats::default();
    if o.multiset_only {
        let mut x: Vec<&T> = a.iter().filter(|t| !t.is(",") && !t.is(";")).collect();
        let mut y: Vec<&T> = b.iter().filter(|t| !t.is(",") && !t.is(";")).collect();
        let key = |t: &&T| (format!("{:?}", t.k), t.s.clone());
        x.sort_by_key(key);
        y.sort_by_key(key);
        st.tokens = x.len();
        if x != y {
            let d = x.iter().zip(y.iter()).find(|(p, q)| p != q);
            return Err(Mismatch {
                class: "multiset".into(),
                msg: format!("token multisets differ (reorder_impl_items): first difference {:?}", d),
            });
        }
        return Ok(st);
    }
    let mut ia = Side::new(a);
    let mut ib = Side::new(b);
    // closers of macro delimiters that were accepted as equivalent
    let mut delim_pairs: Vec<(usize, usize)> = vec![];
    let (mut i, mut j) = (0usize, 0usize);
    let ctx = |s: &Side<'_>, k: usize| -> String {
        let lo = k.saturating_sub(6);
        let hi = (k + 5).min(s.v.len());
        s.v[lo..hi].iter().enumerate().map(|(x, t)| if lo + x == k { format!("»{}«", t.s) } else { t.s.clone() }).collect::<Vec<_>>().join(" ")
    };
    macro_rules! edit {
        ($name:expr) => {{
            if !st.edits.contains(&$name) {
                st.edits.push($name);
            }
        }};
    }
    loop {
        while i < a.len() && ia.skip[i] {
            i += 1;
        }
        while j < b.len() && ib.skip[j] {
            j += 1;
        }
        if i >= a.len() && j >= b.len() {
            break;
        }
        let ta = ia.at(i).cloned();
        let tb = ib.at(j).cloned();
        if let (Some(x), Some(y)) = (&ta, &tb) {
            if x == y && x.is("<") && ia.is(i + 1, ">") != ib.is(j + 1, ">") {
                // `impl<> <T as Tr>::X` vs `impl <T as Tr>::X`: the empty list is on one side only
                if ia.is(i + 1, ">") {
                    i += 2;
                } else {
                    j += 2;
                }
                edit!("empty-generics");
                continue;
            }
            if x == y {
                i += 1;
                j += 1;
                st.tokens += 1;
                continue;
            }
            if delim_pairs.contains(&(i, j)) {
                i += 1;
                j += 1;
                continue;
            }
            // literal spelling
            if matches!(x.k, K::Str | K::Int | K::Float | K::OtherLit) && lit_equal(x, y, o) {
                edit!("literal-spelling");
                i += 1;
                j += 1;
                continue;
            }
        }
        // ---- macro delimiters ------------------------------------------------------------------
        if let (Some(x), Some(y)) = (&ta, &tb) {
            if x.k == K::Open && y.k == K::Open && ia.m[i] != usize::MAX && ib.m[j] != usize::MAX {
                let name = |s: &Side<'_>, k: usize| -> Option<String> {
                    if k >= 2 && s.is(k - 1, "!") {
                        return Some(s.v[k - 2].s.clone());
                    }
                    None
                };
                let na = name(&ia, i);
                let nb = name(&ib, j);
                let vec_like = na.is_some() && na == nb && na.as_deref() == Some("vec");
                let known = o.accept_known_macro_delims
                    && ((na.is_some() && na == nb && na.as_deref() == Some("lazy_static"))
                        // macro_rules transcriber: `=> ( .. )` / `=> [ .. ]` becomes `=> { .. }`
                        || (ia.prev_arrow(i) && ib.prev_arrow(j) && ia.in_macro_rules[i] && ib.in_macro_rules[j]));
                if vec_like || known {
                    delim_pairs.push((ia.m[i], ib.m[j]));
                    edit!(if vec_like { "vec-delims" } else { "known-macro-delims" });
                    i += 1;
                    j += 1;
                    continue;
                }
            }
        }
        // the previous token of the other side was the closing brace of a skipped body block:
        // the separator after the body is optional
        let recently_skipped = |s: &Side<'_>, k: usize| (1..=2).any(|d| k >= d && s.skip[k - d] && s.v[k - d].is("}"));
        let other_skipped_a = recently_skipped(&ia, i);
        let other_skipped_b = recently_skipped(&ib, j);
        // ---- edits that consume one token of one side -----------------------------------------
        let mut progressed = false;
        // pass 0: every edit except parentheses, pass 1: parentheses (lowest priority, so that
        // `=> (a, b)` vs `=> { (a, b) }` is read as a body block, not as dropped parentheses)
        for (pass, side) in [(0, 0), (0, 1), (1, 0), (1, 1)] {
            let (s, k) = if side == 0 { (&mut ia, i) } else { (&mut ib, j) };
            let Some(t) = s.at(k).cloned() else { continue };
            let advance = |side: usize, i: &mut usize, j: &mut usize, n: usize| {
                if side == 0 {
                    *i += n
                } else {
                    *j += n
                }
            };
            if pass == 1 && !t.is("(") {
                continue;
            }
            // trailing separator before a closer, or after a block-bodied arm / item
            let other_prev_skipped = if side == 0 { other_skipped_b } else { other_skipped_a };
            if t.is(",") && (s.is_closer(k + 1) || s.prev_is(k, "}") || s.is(k + 1, "{") || s.is(k + 1, ";") || s.is(k + 1, "=") || other_prev_skipped) {
                edit!("trailing-comma");
                advance(side, &mut i, &mut j, 1);
                progressed = true;
                break;
            }
            if t.is(";") {
                // redundant semicolon (`;;`, `{;`, `};`), or `;` before `}` after a jump
                let jump = s.jump_before(k);
                if s.prev_is(k, ";") || s.prev_is(k, "{") || s.prev_is(k, "}") || (s.is(k + 1, "}") && jump) || (s.is_closer(k + 1) && s.at(k + 1).map(|t| !t.is("}")).unwrap_or(false) && false) {
                    edit!("semicolon");
                    advance(side, &mut i, &mut j, 1);
                    progressed = true;
                    break;
                }
                // trailing `;` of the last macro_rules arm
                if s.is(k + 1, "}") && k >= 1 && s.v[k - 1].k == K::Close {
                    edit!("semicolon");
                    advance(side, &mut i, &mut j, 1);
                    progressed = true;
                    break;
                }
            }
            if t.is("|") && k >= 1 && !s.is(k + 1, "|") && (s.prev_is(k, "{") || s.prev_is(k, ",") || s.prev_is(k, "}") || s.prev_is(k, "]") || matches!(s.v[k - 1].k, K::Doc(_))) {
                edit!("leading-pipe");
                advance(side, &mut i, &mut j, 1);
                progressed = true;
                break;
            }
            if t.k == K::Str && t.s == "\"C\"" && s.prev_is(k, "extern") {
                edit!("extern-abi");
                advance(side, &mut i, &mut j, 1);
                progressed = true;
                break;
            }
            if t.is("in") && k >= 2 && s.prev_is(k, "(") && s.is(k - 2, "pub") && (s.is(k + 1, "crate") || s.is(k + 1, "self") || s.is(k + 1, "super")) && s.is(k + 2, ")") {
                edit!("pub-in");
                advance(side, &mut i, &mut j, 1);
                progressed = true;
                break;
            }
            if t.is(":") && s.is(k + 1, ":") && k >= 3 && s.prev_is(k, "in") && s.is(k - 2, "(") && s.is(k - 3, "pub") {
                edit!("pub-in");
                advance(side, &mut i, &mut j, 2);
                progressed = true;
                break;
            }
            if t.is("<") && s.is(k + 1, ">") {
                edit!("empty-generics");
                advance(side, &mut i, &mut j, 2);
                progressed = true;
                break;
            }
            if t.is("for") && s.is(k + 1, "<") && s.is(k + 2, ">") {
                edit!("empty-binder");
                advance(side, &mut i, &mut j, 3);
                progressed = true;
                break;
            }
            let list_end = |s: &Side<'_>, k: usize| s.is(k, ",") || s.is(k, ">") || s.is(k, "{") || s.is(k, "=") || s.is(k, ";") || s.is(k, "where") || s.is(k, ")") || s.at(k).is_none();
            if t.is("where") && (s.is(k + 1, "{") || s.is(k + 1, ";") || s.is(k + 1, "=") || s.at(k + 1).is_none()) {
                edit!("empty-where");
                advance(side, &mut i, &mut j, 1);
                progressed = true;
                break;
            }
            if (t.is(":") || t.is("+")) && !s.prev_is(k, ":") && !s.is(k + 1, ":") && list_end(s, k + 1) {
                edit!("empty-bounds");
                advance(side, &mut i, &mut j, 1);
                progressed = true;
                break;
            }
            if (!o.strict || s.in_macro[k]) && t.is("{") && (s.prev_arrow(k) || s.after_closure_params(k) || (k >= 1 && s.skipped_open[k - 1])) && s.single_expr_block(k) {
                let c = s.m[k];
                s.skip[c] = true;
                s.skipped_open[k] = true;
                edit!("body-braces");
                advance(side, &mut i, &mut j, 1);
                progressed = true;
                break;
            }
            if (!o.strict || s.in_macro[k]) && t.is("{") && k >= 1 && s.prev_is(k, "{") && s.m[k] != usize::MAX && s.m[k - 1] != usize::MAX && s.m[k] + 1 == s.m[k - 1] {
                // `{ { x } }`: a block that is the sole content of a block
                let c = s.m[k];
                s.skip[c] = true;
                s.skipped_open[k] = true;
                edit!("body-braces");
                advance(side, &mut i, &mut j, 1);
                progressed = true;
                break;
            }
            if pass == 1 && (!o.strict || s.in_macro[k]) && t.is("(") && s.m[k] != usize::MAX {
                // only if the other side does not have a parenthesis here
                let other_has = if side == 0 { ib.is(j, "(") } else { ia.is(i, "(") };
                if !other_has {
                    let (s, k) = if side == 0 { (&mut ia, i) } else { (&mut ib, j) };
                    let c = s.m[k];
                    s.skip[c] = true;
                    edit!("parens");
                    advance(side, &mut i, &mut j, 1);
                    progressed = true;
                    break;
                }
            }
        }
        if progressed {
            continue;
        }
        return Err(match (&ta, &tb) {
            (Some(x), Some(y)) => Mismatch {
                class: format!("token:{:?}", x.k),
                msg: format!("token mismatch: input `{}` vs output `{}`\n  input : {}\n  output: {}", x.s, y.s, ctx(&ia, i), ctx(&ib, j)),
            },
            (Some(x), None) => Mismatch {
                class: "missing-in-output".into(),
                msg: format!("output ends early; input continues with `{}`: {}", x.s, ctx(&ia, i)),
            },
            (None, Some(y)) => Mismatch {
                class: "extra-in-output".into(),
                msg: format!("output has extra tokens starting at `{}`: {}", y.s, ctx(&ib, j)),
            },
            (None, None) => unreachable!(),
        });
    }
    Ok(st)
}

pub fn compare(input: &str, output: &str, o: &CmpOpts) -> Result<CmpStats, Mismatch> {
    let a = canonical(input, o);
    let b = canonical(output, o);
    compare_tokens(&a, &b, o)
}

// ---------------------------------------------------------------------------------------------
// import leaves per run (C10)

/// A leaf of an import: (attributes, visibility, path, alias).
pub type LeafKey = (Vec<String>, Vec<String>, String, Option<String>);

/// Splits `src` into maximal runs of consecutive `use` items (a run ends at any other token)
/// and returns the leaves of every run, plus the number of other items seen between runs.
/// `None` if some `use` item cannot be expanded.
pub fn use_runs(src: &str, edition_2015: bool) -> Option<Vec<Vec<LeafKey>>> {
    let o = CmpOpts::default();
    let v = tokens(src, &o);
    let m = match_delims(&v);
    let mut runs: Vec<Vec<LeafKey>> = vec![];
    let mut cur: Vec<LeafKey> = vec![];
    let mut i = 0;
    let mut last_end = 0usize;
    while i < v.len() {
        if v[i].is("use") && !v.get(i + 1).map(|t| t.is("<")).unwrap_or(false) {
            let mut depth = 0i32;
            let mut j = i;
            let mut end = None;
            while j < v.len() {
                match v[j].k {
                    K::Open => depth += 1,
                    K::Close => depth -= 1,
                    _ => {}
                }
                if depth == 0 && v[j].is(";") {
                    end = Some(j);
                    break;
                }
                j += 1;
            }
            let end = end?;
            let (attrs_start, vis_start) = item_prefix_start(&v, &m, i);
            if attrs_start > last_end && !cur.is_empty() {
                // something else stands between the previous import and this one
                runs.push(std::mem::take(&mut cur));
            }
            let attrs = toks_str(&v[attrs_start..vis_start]);
            let vis = toks_str(&norm_vis(v[vis_start..i].to_vec()));
            for (path, alias) in expand_use(&v[i + 1..end])? {
                let path = if edition_2015 { path.trim_start_matches("::").to_owned() } else { path };
                cur.push((attrs.clone(), vis.clone(), path, alias));
            }
            last_end = end + 1;
            i = end + 1;
            continue;
        }
        i += 1;
    }
    // trailing tokens after the last import do not matter; empty runs are dropped
    if !cur.is_empty() {
        runs.push(cur);
    }
    let _ = last_end;
    Some(runs)
}
