//! In-process access to rustfmt through its public API (plus the `verif_hooks` accessors).

use std::panic::{self, AssertUnwindSafe};
use std::sync::Mutex;

use rustfmt_nightly::{
    Config, Edition, EmitMode, FormatReportFormatterBuilder, Input, Session, StyleEdition,
    Verbosity,
};
use serde::{Deserialize, Serialize};

pub type Opts = Vec<(String, String)>;

static PANICS: Mutex<Vec<String>> = Mutex::new(Vec::new());

/// Installs a panic hook that records `file:line:col: message` instead of printing.
pub fn install_panic_recorder() {
    panic::set_hook(Box::new(|info| {
        let loc = info
            .location()
            .map(|l| format!("{}:{}:{}", l.file(), l.line(), l.column()))
            .unwrap_or_else(|| "<unknown>".into());
        let msg = if let Some(s) = info.payload().downcast_ref::<&str>() {
            (*s).to_string()
        } else if let Some(s) = info.payload().downcast_ref::<String>() {
            s.clone()
        } else {
            "<non-string payload>".into()
        };
        if let Ok(mut p) = PANICS.lock() {
            p.push(format!("{loc}: {msg}"));
        }
    }));
}

pub fn take_panics() -> Vec<String> {
    PANICS.lock().map(|mut p| std::mem::take(&mut *p)).unwrap_or_default()
}

pub fn opt<'a>(opts: &'a Opts, key: &str) -> Option<&'a str> {
    opts.iter().rev().find(|(k, _)| k == key).map(|(_, v)| v.as_str())
}

pub fn opt_bool(opts: &Opts, key: &str, default: bool) -> bool {
    opt(opts, key).map(|v| v == "true").unwrap_or(default)
}

pub fn opt_usize(opts: &Opts, key: &str, default: usize) -> usize {
    opt(opts, key).and_then(|v| v.parse().ok()).unwrap_or(default)
}

fn parse_style_edition(s: &str) -> Option<StyleEdition> {
    Some(match s {
        "2015" => StyleEdition::Edition2015,
        "2018" => StyleEdition::Edition2018,
        "2021" => StyleEdition::Edition2021,
        "2024" => StyleEdition::Edition2024,
        "2027" => StyleEdition::Edition2027,
        _ => return None,
    })
}

fn parse_edition(s: &str) -> Option<Edition> {
    Some(match s {
        "2015" => Edition::Edition2015,
        "2018" => Edition::Edition2018,
        "2021" => Edition::Edition2021,
        "2024" => Edition::Edition2024,
        _ => return None,
    })
}

/// Builds a `Config` the way `--style-edition/--edition` + `--config k=v,...` would:
/// defaults of the effective style edition, then every pair through `override_value`.
pub fn build_config(opts: &Opts) -> Config {
    let se = opt(opts, "style_edition").and_then(parse_style_edition);
    let ed = opt(opts, "edition").and_then(parse_edition);
    let mut config = Config::default_for_possible_style_edition(se, ed, None);
    for (k, v) in opts {
        config.override_value(k, v);
    }
    config
}

#[derive(Debug, Clone, Default, Serialize, Deserialize)]
pub struct RepErr {
    pub file: String,
    pub line: usize,
    pub kind: String,
    pub found: usize,
    pub max: usize,
    pub exempt_hint: bool,
}

#[derive(Debug, Clone, Default, Serialize, Deserialize)]
pub struct FmtOut {
    /// Text emitted by the Stdout emitter.
    pub text: String,
    /// `None` if `Session::format` returned Ok, else the Debug of the ErrorKind.
    pub err: Option<String>,
    pub has_operational_errors: bool,
    pub has_parsing_errors: bool,
    pub has_formatting_errors: bool,
    pub has_check_errors: bool,
    pub has_diff: bool,
    pub has_unformatted_code_errors: bool,
    pub has_no_errors: bool,
    pub errors: Vec<RepErr>,
    pub non_formatted_ranges: Vec<(usize, usize)>,
    /// Rendered report (what the binary prints to stderr), if rendering did not panic.
    pub report: String,
    /// A panic that escaped `Session::format` (message with location), or escaped report rendering.
    pub escaped_panic: Option<String>,
    /// Every panic seen by the hook during the call, contained or not.
    pub panics_seen: Vec<String>,
}

impl FmtOut {
    /// rustfmt "accepts the source and emits formatted text": no error of any kind.
    pub fn clean(&self) -> bool {
        self.err.is_none() && self.escaped_panic.is_none() && self.has_no_errors
    }
    /// Formatted, perhaps with width/whitespace diagnostics, but parsed and emitted.
    pub fn emitted(&self) -> bool {
        self.err.is_none() && self.escaped_panic.is_none() && !self.has_parsing_errors
    }
}

/// Formats `src` as standard input would be, under `opts`, emit mode Stdout, quiet.
pub fn format_text(src: &str, opts: &Opts) -> FmtOut {
    format_input(Input::Text(src.to_owned()), opts, true)
}

pub fn format_input(input: Input, opts: &Opts, render_report: bool) -> FmtOut {
    let _ = take_panics();
    let mut res = FmtOut::default();
    let mut out: Vec<u8> = Vec::new();
    // building the configuration is the harness's responsibility: a panic here (invalid
    // generated value) must not be mistaken for a rustfmt panic
    let mut config = build_config(opts);
    let r = panic::catch_unwind(AssertUnwindSafe(|| {
        if opt(opts, "emit_mode").is_none() {
            config.set().emit_mode(EmitMode::Stdout);
        }
        if opt(opts, "verbose").is_none() {
            config.set().verbose(Verbosity::Quiet);
        }
        let mut session = Session::new(config, Some(&mut out));
        let r = session.format(input);
        let flags = (
            session.has_operational_errors(),
            session.has_parsing_errors(),
            session.has_formatting_errors(),
            session.has_check_errors(),
            session.has_diff(),
            session.has_unformatted_code_errors(),
            session.has_no_errors(),
        );
        (r, flags)
    }));
    match r {
        Ok((r, flags)) => {
            res.has_operational_errors = flags.0;
            res.has_parsing_errors = flags.1;
            res.has_formatting_errors = flags.2;
            res.has_check_errors = flags.3;
            res.has_diff = flags.4;
            res.has_unformatted_code_errors = flags.5;
            res.has_no_errors = flags.6;
            match r {
                Ok(report) => {
                    res.errors = rustfmt_nightly::verif_hooks::report_errors(&report)
                        .into_iter()
                        .map(|(file, line, kind, found, max, exempt_hint)| RepErr {
                            file,
                            line,
                            kind,
                            found,
                            max,
                            exempt_hint,
                        })
                        .collect();
                    res.non_formatted_ranges =
                        rustfmt_nightly::verif_hooks::non_formatted_ranges(&report);
                    if render_report && report.has_warnings() {
                        let rr = panic::catch_unwind(AssertUnwindSafe(|| {
                            format!("{}", FormatReportFormatterBuilder::new(&report).build())
                        }));
                        match rr {
                            Ok(s) => res.report = s,
                            Err(_) => {
                                let seen = take_panics();
                                res.escaped_panic = Some(format!(
                                    "report rendering: {}",
                                    seen.last().cloned().unwrap_or_else(|| "unwind".into())
                                ));
                                res.panics_seen.extend(seen);
                            }
                        }
                    }
                }
                Err(e) => res.err = Some(format!("{e:?}")),
            }
        }
        Err(_) => {
            let seen = take_panics();
            res.escaped_panic = Some(
                seen.last()
                    .cloned()
                    .unwrap_or_else(|| "unwind without panic hook (FatalError)".into()),
            );
            res.panics_seen.extend(seen);
        }
    }
    res.panics_seen.extend(take_panics());
    res.text = String::from_utf8_lossy(&out).into_owned();
    res
}

/// One step of [`format_sequence`].
#[derive(Debug, Clone, Default)]
pub struct SeqOut {
    pub text: String,
    pub err: Option<String>,
    pub errors: Vec<(String, usize, String)>,
    /// session-wide summary flags after this step:
    /// (operational, parsing, formatting, check, diff, unformatted)
    pub flags_after: (bool, bool, bool, bool, bool, bool),
    pub panicked: bool,
}

#[derive(Clone)]
struct SharedBuf(std::rc::Rc<std::cell::RefCell<Vec<u8>>>);

impl std::io::Write for SharedBuf {
    fn write(&mut self, b: &[u8]) -> std::io::Result<usize> {
        self.0.borrow_mut().extend_from_slice(b);
        Ok(b.len())
    }
    fn flush(&mut self) -> std::io::Result<()> {
        Ok(())
    }
}

/// Formats several texts one after the other in ONE `Session` built from `base`; a step with
/// `Some(local)` options runs under `Session::override_config` (as the binary does for a file with
/// its own configuration file).
pub fn format_sequence(steps: &[(String, Option<Opts>)], base: &Opts) -> Vec<SeqOut> {
    let _ = take_panics();
    let mut config = build_config(base);
    let locals: Vec<Option<Config>> = steps
        .iter()
        .map(|(_, l)| {
            l.as_ref().map(|l| {
                let mut all = base.clone();
                all.extend(l.iter().cloned());
                let mut c = build_config(&all);
                c.set().emit_mode(EmitMode::Stdout);
                c.set().verbose(Verbosity::Quiet);
                c
            })
        })
        .collect();
    config.set().emit_mode(EmitMode::Stdout);
    config.set().verbose(Verbosity::Quiet);
    let buf = SharedBuf(std::rc::Rc::new(std::cell::RefCell::new(Vec::new())));
    let mut sink = buf.clone();
    let mut res = vec![];
    let r = panic::catch_unwind(AssertUnwindSafe(|| {
        let mut out = vec![];
        let mut session = Session::new(config, Some(&mut sink));
        for ((text, _), local) in steps.iter().zip(locals.into_iter()) {
            buf.0.borrow_mut().clear();
            let input = Input::Text(text.clone());
            let r = match local {
                Some(cfg) => session.override_config(cfg, |s| s.format(input)),
                None => session.format(input),
            };
            let mut so = SeqOut::default();
            match r {
                Ok(report) => {
                    so.errors = rustfmt_nightly::verif_hooks::report_errors(&report).into_iter().map(|(f, l, k, ..)| (f, l, k)).collect();
                }
                Err(e) => so.err = Some(format!("{e:?}")),
            }
            so.text = String::from_utf8_lossy(&buf.0.borrow()).into_owned();
            so.flags_after = (
                session.has_operational_errors(),
                session.has_parsing_errors(),
                session.has_formatting_errors(),
                session.has_check_errors(),
                session.has_diff(),
                session.has_unformatted_code_errors(),
            );
            out.push(so);
        }
        out
    }));
    match r {
        Ok(v) => res = v,
        Err(_) => {
            res.push(SeqOut { panicked: true, ..Default::default() });
        }
    }
    let _ = take_panics();
    res
}
