//! G-CORPUS: the snapshot of the pinned tree's fixtures and sources (inputs only), split into
//! top-level item chunks by an independent parse.

use std::path::Path;

#[derive(Debug, Clone, Default)]
pub struct CorpusFile {
    /// Path relative to the corpus root, e.g. `tests/source/expr.rs`.
    pub path: String,
    pub text: String,
    /// Edition under which the file parses.
    pub edition: String,
    /// `// rustfmt-key: value` header options of the fixture.
    pub header_opts: Vec<(String, String)>,
    /// Byte ranges of item chunks (leading comments + attributes + item).
    pub chunks: Vec<(usize, usize)>,
    pub kinds: Vec<&'static str>,
}

#[derive(Debug, Default)]
pub struct Corpus {
    pub files: Vec<CorpusFile>,
    /// (file index, chunk index) of every chunk, in a fixed order.
    pub chunk_index: Vec<(u32, u32)>,
}

fn walk(dir: &Path, out: &mut Vec<std::path::PathBuf>) {
    let mut entries: Vec<_> = match std::fs::read_dir(dir) {
        Ok(rd) => rd.filter_map(|e| e.ok()).map(|e| e.path()).collect(),
        Err(_) => return,
    };
    entries.sort();
    for p in entries {
        if p.is_dir() {
            walk(&p, out);
        } else if p.extension().map(|e| e == "rs").unwrap_or(false) {
            out.push(p);
        }
    }
}

pub fn header_opts(text: &str) -> Vec<(String, String)> {
    let mut v = vec![];
    for line in text.lines() {
        let l = line.trim();
        if let Some(rest) = l.strip_prefix("// rustfmt-") {
            if let Some((k, val)) = rest.split_once(':') {
                v.push((k.trim().to_owned(), val.trim().to_owned()));
            }
        }
    }
    v
}

impl Corpus {
    pub fn load(root: &Path) -> Corpus {
        let mut paths = vec![];
        walk(root, &mut paths);
        let mut files = vec![];
        for p in paths {
            let text = match std::fs::read_to_string(&p) {
                Ok(t) => t,
                Err(_) => continue, // not UTF-8
            };
            if text.len() > 120_000 {
                continue;
            }
            let rel = p.strip_prefix(root).unwrap().to_string_lossy().into_owned();
            let hdr = header_opts(&text);
            let hdr_ed = hdr
                .iter()
                .find(|(k, _)| k == "edition")
                .map(|(_, v)| v.clone());
            let mut tried: Vec<String> = vec![];
            if let Some(e) = hdr_ed {
                tried.push(e);
            }
            for e in ["2015", "2018", "2021", "2024"] {
                if !tried.iter().any(|t| t == e) {
                    tried.push(e.to_owned());
                }
            }
            let mut found = None;
            for e in &tried {
                if let Some((items, inner_end)) = crate::parse::top_items(&text, e) {
                    found = Some((e.clone(), items, inner_end));
                    break;
                }
            }
            let Some((edition, items, inner_end)) = found else {
                continue;
            };
            let mut chunks = vec![];
            let mut kinds = vec![];
            let mut prev = inner_end;
            for it in &items {
                if it.lo < prev || it.hi > text.len() || it.hi <= it.lo {
                    continue; // macro-expanded or odd span
                }
                if !text.is_char_boundary(prev) || !text.is_char_boundary(it.hi) {
                    continue;
                }
                chunks.push((prev, it.hi));
                kinds.push(it.kind);
                prev = it.hi;
            }
            files.push(CorpusFile {
                path: rel,
                text,
                edition,
                header_opts: hdr,
                chunks,
                kinds,
            });
        }
        let mut chunk_index = vec![];
        for (fi, f) in files.iter().enumerate() {
            for ci in 0..f.chunks.len() {
                chunk_index.push((fi as u32, ci as u32));
            }
        }
        Corpus { files, chunk_index }
    }

    pub fn chunk_text(&self, fi: usize, ci: usize) -> &str {
        let f = &self.files[fi];
        let (lo, hi) = f.chunks[ci];
        &f.text[lo..hi]
    }
}
