#!/bin/bash
# ./check.sh <ID> [quick|thorough]  — rebuilds from /repo's working tree, then runs the check.
# Exit: 0 held, 1 VIOLATION printed, 2 could not decide (build failure, watchdog quota).
set -u
ID="${1:?property id}"
TIER="${2:-${VERIF_TIER:-quick}}"
HERE="$(cd "$(dirname "$0")" && pwd)"
export VERIF_ROOT="$HERE"
export CARGO_NET_OFFLINE=true
cd "$HERE/harness" || exit 2
export LD_LIBRARY_PATH="$(rustc --print sysroot)/lib${LD_LIBRARY_PATH:+:$LD_LIBRARY_PATH}"
mkdir -p "$HERE/.build"
LOG="$HERE/.build/build-$ID.log"
# the harness (path-depends on /repo with feature verif_hooks => always rebuilt from the working tree)
if ! cargo build --release --target-dir "$HERE/.build/harness" >"$LOG" 2>&1; then
  echo "harness build failed (see $LOG)" >&2; tail -30 "$LOG" >&2; exit 2
fi
# the binaries of /repo (CLI-level properties and strict replays)
if ! (cd /repo && cargo build --bins --target-dir "$HERE/.build/repo" >>"$LOG" 2>&1); then
  echo "/repo build failed (see $LOG)" >&2; tail -30 "$LOG" >&2; exit 2
fi
if [ -x "$HERE/setup.sh" ] && [ ! -x "$HERE/.build/frozen/release/frozen-worker" ] && [ -d "$HERE/frozen" ]; then
  "$HERE/setup.sh" frozen >>"$LOG" 2>&1 || true
fi
exec "$HERE/.build/harness/release/vp" check "$ID" --tier "$TIER"
