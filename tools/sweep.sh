#!/bin/bash
# dev aid: tools/sweep.sh <ID> <tier> <N|all> [seed]  -> /tmp/<id>.triage  (uses the already built harness)
ID=$1; TIER=$2; N=$3; SEED=${4:-0}
export LD_LIBRARY_PATH=$(cd /verif/harness && rustc --print sysroot)/lib
export VERIF_ROOT=/verif VERIF_SEED=$SEED VP_EVIDENCE_DIR=/tmp/sweep_evidence VP_VIOLATIONS_DIR=/tmp/sweep_violations
L=$(echo $ID | tr A-Z a-z)
rm -f /tmp/$L.triage
if [ "$N" = all ]; then export VP_GRID_ALL=1; else export VP_GRID_N=$N; fi
VP_TRIAGE=/tmp/$L.triage /verif/.build/harness/release/vp check $ID --tier $TIER 2>&1 | grep -v "^KNOWN-FINDING\|^proptest" | tail -2
