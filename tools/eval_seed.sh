#!/bin/bash
# Development-time: run checks against a seeded change in full isolation from /repo and /verif/.build.
# usage: eval_seed.sh <seeded-dir-name> <CHECK-ID> [<CHECK-ID>...]
# Uses a scratch worktree /tmp/seedrepo, a copy of the harness pointing at it, and /tmp/seedbuild.
S=$1; shift
export CARGO_NET_OFFLINE=true
if [ ! -d /tmp/seedrepo ]; then git -C /repo worktree add -q --detach /tmp/seedrepo HEAD; fi
git -C /tmp/seedrepo checkout -q --detach $(git -C /repo rev-parse HEAD) 2>/dev/null
git -C /tmp/seedrepo checkout -q -- . ; git -C /tmp/seedrepo clean -fdq
if [ "$S" != "none" ]; then git -C /tmp/seedrepo apply /verif/seeded/$S/patch.diff || { echo "$S: patch does not apply"; exit 3; }; fi
mkdir -p /tmp/seedbuild /tmp/seedharness
rsync -a --delete --exclude target ${HARNESS_SRC:-/verif/harness}/ /tmp/seedharness/
sed -i 's#path = "/repo"#path = "/tmp/seedrepo"#' /tmp/seedharness/Cargo.toml
export LD_LIBRARY_PATH="$(cd /tmp/seedharness && rustc --print sysroot)/lib"
(cd /tmp/seedharness && cargo build --release --target-dir /tmp/seedbuild/harness >/tmp/seedbuild/build.log 2>&1) || { echo "$S: harness build failed"; tail -5 /tmp/seedbuild/build.log; exit 2; }
(cd /tmp/seedrepo && cargo build --bins --target-dir /tmp/seedbuild/repo >>/tmp/seedbuild/build.log 2>&1) || { echo "$S: repo build failed"; exit 2; }
ln -sfn /verif/.build/frozen /tmp/seedbuild/frozen
for ID in "$@"; do
  OUT=$(VERIF_ROOT=/verif VP_BUILD=/tmp/seedbuild VP_EVIDENCE_DIR=/tmp/seedbuild/evidence VP_VIOLATIONS_DIR=/tmp/seedbuild/violations timeout 1800 /tmp/seedbuild/harness/release/vp check $ID --tier ${TIER:-quick} 2>&1)
  RC=$?
  V=$(echo "$OUT" | grep -m1 "^VIOLATION" )
  SIG=$(echo "$OUT" | grep -m1 "^--- " | cut -c1-160)
  SUM=$(echo "$OUT" | grep "^\[$ID" | tail -1 | cut -c1-140)
  echo "$S $ID exit=$RC | $SIG | $SUM"
done
git -C /tmp/seedrepo checkout -q -- . ; git -C /tmp/seedrepo clean -fdq
