#!/usr/bin/env python3
# dev aid: tools/triage.py <triage.jsonl> [n_examples] [maxlen]
import json,collections,sys
c=collections.Counter(); ex={}
for l in open(sys.argv[1]):
    r=json.loads(l); c[r['sig']]+=1; ex.setdefault(r['sig'],r)
n=int(sys.argv[2]) if len(sys.argv)>2 else 3
m=int(sys.argv[3]) if len(sys.argv)>3 else 1500
for s,k in c.most_common(40): print(k,s)
for s in list(ex)[:n]: print('----',s); print(ex[s].get('msg','')[:m])
