#!/usr/bin/env python3
"""Development-time: copy a confirmed seeded change into /verif/seeded/<ID>-<n>/ with meta.json.
usage: keep_seed.py <ID> <n> "<what it needs to manifest>" """
import sys, os, shutil, json, re
ID, n, needs = sys.argv[1], sys.argv[2], sys.argv[3]
src = f'/tmp/seed_out/{ID}'
dst = f'/verif/seeded/{ID}-{n}'
os.makedirs(dst, exist_ok=True)
shutil.copy(f'{src}/patch{n}.diff', f'{dst}/patch.diff')
shutil.copy(f'{src}/demo{n}.sh', f'{dst}/demo.sh')
confirm = open(f'{src}/confirm{n}.txt').read().strip().split('\n')
tests = open(f'{src}/test{n}.txt').read().strip().split('\n') if os.path.exists(f'{src}/test{n}.txt') else []
files = sorted(set(re.findall(r'^\+\+\+ b/(\S+)', open(f'{dst}/patch.diff').read(), re.M)))
meta = {
    "property": ID,
    "origin": "written by an independent sub-agent that saw only the property text and a scratch worktree",
    "files_changed": files,
    "needs_to_manifest": needs,
    "confirmed_by_me": {
        "how": "tools/confirm_seed.sh in the scratch worktree: git apply, cargo build, cargo test --no-fail-fast (whole suite), demo with the patch, demo without the patch",
        "result": confirm,
        "test_result_lines": tests,
    },
    "detected_by": [],
}
if os.path.exists(f'{dst}/meta.json'):
    old = json.load(open(f'{dst}/meta.json'))
    meta["detected_by"] = old.get("detected_by", [])
json.dump(meta, open(f'{dst}/meta.json', 'w'), indent=1)
print(dst, files)
