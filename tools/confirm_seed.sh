#!/bin/bash
# Development-time: confirm a seeded change in its scratch worktree:
#   compiles, the repository's test suite passes, the demo fails with it and passes without it.
# usage: confirm_seed.sh <ID> <n>
ID=$1; N=$2
WT=/tmp/wt/$ID; OUT=/tmp/seed_out/$ID
cd $WT || exit 2
export CARGO_NET_OFFLINE=true
export LD_LIBRARY_PATH=$(rustc --print sysroot)/lib
R=$OUT/confirm$N.txt
: > $R
git checkout -q -- . ; git clean -fdq -e target
if ! git apply $OUT/patch$N.diff; then echo "apply: FAILED" >> $R; exit 1; fi
echo "apply: ok" >> $R
if cargo build --offline >/dev/null 2>&1; then echo "build: ok" >> $R; else echo "build: FAILED" >> $R; fi
cargo test --offline --no-fail-fast 2>&1 | grep -E "^test result|FAILED|panicked" > $OUT/test$N.txt
if grep -q "FAILED\|panicked" $OUT/test$N.txt; then echo "tests: FAILED" >> $R; else echo "tests: ok ($(grep -c '^test result: ok' $OUT/test$N.txt) result lines ok)" >> $R; fi
bash $OUT/demo$N.sh $WT/target/debug >/dev/null 2>&1; echo "demo with patch: exit $?" >> $R
git checkout -q -- . ; git clean -fdq -e target
cargo build --offline >/dev/null 2>&1
bash $OUT/demo$N.sh $WT/target/debug >/dev/null 2>&1; echo "demo without patch: exit $?" >> $R
cat $R
