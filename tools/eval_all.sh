#!/bin/bash
# Development-time: evaluate every seeded change with its own property's check plus related ones.
# usage: tools/eval_all.sh [seeded-dir ...]   (default: all)   -> appends to /tmp/seed_eval2.log
cd /verif
declare -A EXTRA=( [C08-2]="C06" [C06-1]="C08" [C15-1]="C14" [C15-2]="C14" [C07-1]="C17" [C07-2]="C04" [C04-1]="C07" [C03-1]="C02" [C03-2]="C02" [C14-1]="C09" [C11-2]="C09" [C01-1]="C02" [C06-4]="C15" [C08-5]="C09" [C08-6]="C09" )
LIST="$@"; [ -z "$LIST" ] && LIST=$(ls seeded)
for S in $LIST; do
  P=${S%-*}
  tools/eval_seed.sh $S $P ${EXTRA[$S]} >> /tmp/seed_eval2.log 2>&1
done
echo ALLDONE >> /tmp/seed_eval2.log
