#!/usr/bin/env python3
"""Development-time: tools/ddmin.py <PROP> <replay.json> <sig-prefix> -> minimises case.src line-wise, then token-wise."""
import json,subprocess,sys,os,re
prop,path,want=sys.argv[1:4]
env=dict(os.environ); env['VERIF_ROOT']='/verif'
env['LD_LIBRARY_PATH']=subprocess.run('cd /verif/harness && rustc --print sysroot',shell=True,capture_output=True,text=True).stdout.strip()+'/lib'
doc=json.load(open(path))
tmp=path+'.dd.json'
def fails(src,opts=None):
    d=json.loads(json.dumps(doc)); d['case']['src']=src
    if opts is not None: d['case']['opts']=opts
    json.dump(d,open(tmp,'w'))
    r=subprocess.run(['/verif/.build/harness/release/vp','replay',prop,tmp],capture_output=True,text=True,env=env,timeout=120)
    m=re.search(r'sig=(\S*)',r.stdout)
    return bool(m) and m.group(1).startswith(want) and 'status=Fail' in r.stdout
def ddmin(units,join):
    n=2
    while len(units)>=2:
        chunk=max(1,len(units)//n); reduced=False
        for i in range(0,len(units),chunk):
            cand=units[:i]+units[i+chunk:]
            if cand and fails(join(cand)):
                units=cand; n=max(n-1,2); reduced=True; break
        if not reduced:
            if chunk==1: break
            n=min(n*2,len(units))
    return units
src=doc['case']['src']
assert fails(src), 'does not fail initially'
lines=ddmin(src.split('\n'),lambda u:'\n'.join(u))
src='\n'.join(lines)
toks=ddmin(re.findall(r'\s+|\w+|[^\w\s]',src),lambda u:''.join(u))
src=''.join(toks)
opts=doc['case'].get('opts',[])
i=0
while i<len(opts):
    cand=opts[:i]+opts[i+1:]
    if fails(src,cand): opts=cand
    else: i+=1
doc['case']['src']=src; doc['case']['opts']=opts
json.dump(doc,open(path+'.min.json','w'),indent=1)
print(opts); print(src)
