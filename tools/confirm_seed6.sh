#!/bin/bash
# Development-time (later rounds): confirm seeded change <n> of <ID> in ${WTROOT:-/tmp/wt6}/<ID> and keep it as seeded/<ID>-<m>.
# usage: confirm_seed2.sh <ID> <n> <m> "<what it needs>"
ID=$1; N=$2; M=$3; NEEDS=$4
WT=${WTROOT:-/tmp/wt6}/$ID; OUT=${OUTROOT:-/tmp/seed_out6}/$ID
cd $WT || exit 2
export CARGO_NET_OFFLINE=true
export LD_LIBRARY_PATH=$(rustc --print sysroot)/lib
R=$OUT/confirm$N.txt
: > $R
git checkout -q -- . ; git clean -fdq -e target
if ! git apply $OUT/patch$N.diff; then echo "apply: FAILED" >> $R; cat $R; exit 1; fi
echo "apply: ok" >> $R
if cargo build --offline >/dev/null 2>&1; then echo "build: ok" >> $R; else echo "build: FAILED" >> $R; fi
cargo test --offline --no-fail-fast 2>&1 | grep -E "^test result|FAILED|panicked" > $OUT/test$N.txt
if grep -q "FAILED\|panicked" $OUT/test$N.txt; then echo "tests: FAILED" >> $R; else echo "tests: ok ($(grep -c '^test result: ok' $OUT/test$N.txt) result lines ok)" >> $R; fi
bash $OUT/demo$N.sh $WT/target/debug >/dev/null 2>&1; echo "demo with patch: exit $?" >> $R
git checkout -q -- . ; git clean -fdq -e target
cargo build --offline >/dev/null 2>&1
bash $OUT/demo$N.sh $WT/target/debug >/dev/null 2>&1; echo "demo without patch: exit $?" >> $R
cat $R
if grep -q "FAILED" $R || ! grep -q "demo with patch: exit [1-9]" $R || ! grep -q "demo without patch: exit 0" $R; then echo "NOT KEPT"; exit 1; fi
python3 - <<PY
import sys,os,shutil,json,re
ID,n,m,needs="$ID","$N","$M","""$NEEDS"""
src=f'${OUTROOT:-/tmp/seed_out6}/{ID}'; dst=f'/verif/seeded/{ID}-{m}'
os.makedirs(dst,exist_ok=True)
shutil.copy(f'{src}/patch{n}.diff',f'{dst}/patch.diff'); shutil.copy(f'{src}/demo{n}.sh',f'{dst}/demo.sh')
confirm=open(f'{src}/confirm{n}.txt').read().strip().split('\n')
tests=open(f'{src}/test{n}.txt').read().strip().split('\n')
files=sorted(set(re.findall(r'^\+\+\+ b/(\S+)',open(f'{dst}/patch.diff').read(),re.M)))
note=open(f'{src}/note{n}.txt').read() if os.path.exists(f'{src}/note{n}.txt') else ''
json.dump({"property":ID,"round":int(os.environ.get("ROUND","6")),"origin":"written by an independent sub-agent that saw only the property text and a scratch worktree","files_changed":files,"needs_to_manifest":needs,"agent_note":note,"confirmed_by_me":{"how":"tools/confirm_seed6.sh in the scratch worktree: git apply, cargo build, cargo test --no-fail-fast (whole suite), demo with the patch, demo without the patch","result":confirm,"test_result_lines":tests},"detected_by":[]},open(f'{dst}/meta.json','w'),indent=1)
print('kept',dst,files)
PY
