#!/usr/bin/env python3
"""Development-time: tools/seed_table.py <eval.log> -> markdown table + updates seeded/*/meta.json detected_by."""
import sys,re,json,os,collections
res=collections.OrderedDict()
for l in open(sys.argv[1]):
    m=re.match(r'^(C\d\d-\d) (C\d\d) exit=(\d+) \| (?:--- \S+ sig=)?(.*?) \| ',l)
    if m:
        s,c,rc,sig=m.groups()
        res[(s,c)]=(int(rc),sig.strip())
seeds=sorted({s for s,_ in res})
print("| seeded change | what it needs | caught by (signature) | silent |")
print("|---|---|---|---|")
for s in sorted(os.listdir('/verif/seeded')):
    mp=f'/verif/seeded/{s}/meta.json'
    if not os.path.exists(mp): continue
    meta=json.load(open(mp))
    caught=[(c,sig) for (ss,c),(rc,sig) in res.items() if ss==s and rc==1]
    silent=[c for (ss,c),(rc,sig) in res.items() if ss==s and rc==0]
    other=[f"{c}:exit{rc}" for (ss,c),(rc,sig) in res.items() if ss==s and rc not in (0,1)]
    meta['detected_by']=[{"check":c,"signature":sig} for c,sig in caught]
    meta['not_detected_by']=silent
    json.dump(meta,open(mp,'w'),indent=1)
    need=(meta.get('needs_to_manifest') or '').replace('|','/')
    print(f"| {s} | {need[:110]} | {'; '.join(f'{c} ({sig[:60]})' for c,sig in caught) or '**missed**'} | {', '.join(silent+other)} |")
