#!/usr/bin/env python3
"""Development-time tool (never run by a check): turn a full-grid triage log into
known-finding entries + replay files.

usage: mk_known.py <PROPERTY> <triage.jsonl> [--what "text"]

Failures are grouped by corpus file; every entry lists the exact failure signatures
(one per corpus item) and one representative replay case (the failing cell with the fewest
options). Hand-written entries (without "auto": true) are preserved.
"""
import json, sys, os, re, collections, hashlib

prop, triage = sys.argv[1], sys.argv[2]
root = '/verif'
kf_path = os.path.join(root, 'known_findings.json')
kf = json.load(open(kf_path))
kf['findings'] = [f for f in kf['findings'] if not (f.get('auto') and f['property'] == prop)]

recs = []
for l in open(triage):
    try:
        recs.append(json.loads(l))
    except Exception:
        pass

def file_of(sig):
    m = re.search(r'corpus:([^#]+)#', sig)
    return m.group(1) if m else None

groups = collections.defaultdict(list)
other = []
for r in recs:
    f = file_of(r['sig'])
    if f is None:
        other.append(r)
    else:
        groups[f].append(r)

auto_dir = os.path.join(root, 'replay', prop, 'auto')
if os.path.isdir(auto_dir):
    for fn in os.listdir(auto_dir):
        os.remove(os.path.join(auto_dir, fn))
os.makedirs(auto_dir, exist_ok=True)

n = 0
for f in sorted(groups):
    rs = groups[f]
    sigs = sorted(set(r['sig'] for r in rs))
    rep = min(rs, key=lambda r: (len(r['case'].get('opts', [])), len(r['case'].get('src', ''))))
    n += 1
    name = re.sub(r'[^A-Za-z0-9]+', '-', f).strip('-')[:80] + '.json'
    rel = f'replay/{prop}/auto/{name}'
    json.dump({'property': prop, 'note': 'representative failing grid cell for known finding', 'sig': rep['sig'], 'case': rep['case']},
              open(os.path.join(root, rel), 'w'), indent=1, ensure_ascii=False)
    first = rep['msg'].split('\n')[0][:160]
    kinds = sorted(set(s.split(':')[0] for s in sigs))
    items = sorted(set(s.split('#')[-1] for s in sigs), key=lambda x: int(x) if x.isdigit() else 0)
    kf['findings'].append({
        'id': f'KF-{prop}-A{n:03d}',
        'property': prop,
        'status': 'known',
        'auto': True,
        'what': f'{"/".join(kinds)} on corpus item(s) {f}#{",#".join(items)} ({len(rs)} failing grid cells; e.g. {rep["case"].get("cell","?")}: {first})',
        'sigs': sigs,
        'replay': [rel],
    })
json.dump(kf, open(kf_path, 'w'), indent=1, ensure_ascii=False)
print(f'{prop}: {n} auto entries from {len(recs)} failures; {len(other)} failures not keyed by a corpus item')
for r in other[:10]:
    print('  unkeyed:', r['sig'])
